#!/bin/bash
# dev helper: ./dev.sh C01 [checks] [seed] [extra go test args]
export GOFLAGS=-mod=mod GOPROXY=off GOSUMDB=off GOTOOLCHAIN=local
id=$1; n=${2:-2000}; seed=${3:-1}; shift 3
cd /verif/harness
rm -rf /tmp/vf; mkdir -p /tmp/vf
VERIF_FAILDIR=/tmp/vf VERIF_OUT=/tmp/vf/out.json VERIF_JOURNAL=/tmp/vf/journal.json go test ./checks/ -run "^Test$id\$" -rapid.checks=$n -rapid.seed=$seed -rapid.nofailfile -timeout 300s "$@" 2>&1 | grep -v '^\s*[a-z_0-9]*\.go:[0-9]*: \[rapid\] draw' | head -${LINES_MAX:-40}
python3 - <<'PY'
import json,glob
for f in glob.glob('/tmp/vf/C*.json'):
    d=json.load(open(f)); print('FAILCLASS',d['failure']['class']); print(d['failure']['msg'][:2500]); print(json.dumps(d['case'])[:3000])
try:
    o=json.load(open('/tmp/vf/out.json')); print('evals',o['evaluations'],'nontriv',o['distinct_nontrivial']); print(sorted(o['classes'].items(), key=lambda x:-x[1])[:60]); print('excluded',o['excluded'])
except Exception as e: print('no out',e)
PY
