package core

import (
	"bytes"
	"encoding/binary"
	"math"
)

// Omit3 is a three-valued answer.
type Omit3 uint8

const (
	Emit Omit3 = iota
	Omit
	Either
)

// OmitRule says whether the encoder omits field f holding v in a struct of spec s
// (Appendix A of DESIGN.md / property C10).
func OmitRule(s *StructSpec, f *FieldSpec, v Val) Omit3 {
	if f.Req != Optional {
		return Emit
	}
	t := f.Type
	if f.GoPtr {
		if v.Nil {
			return Omit
		}
		return Emit
	}
	switch t.Kind {
	case KList, KSet, KMap:
		if v.Nil {
			return Omit
		}
		return Emit
	case KStruct:
		if t.Ptr {
			if v.Nil {
				return Omit
			}
			return Emit
		}
		return Emit // optional by-value struct is always written
	case KBinary:
		if v.Nil {
			return Omit
		}
		if s.HasInit {
			d := s.Defaults[f.ID] // zero Val => empty
			if bytes.Equal(d.S, v.S) {
				return Omit
			}
		}
		return Emit
	}
	// non-pointer scalar / string / enum
	if !s.HasInit {
		return Emit
	}
	d, ok := s.Defaults[f.ID]
	if !ok {
		d = ZeroType(t)
	}
	switch t.Kind {
	case KBool:
		if d.B == v.B {
			return Omit
		}
	case KI8, KI16, KI32, KI64, KEnum:
		if d.I == v.I {
			return Omit
		}
	case KString:
		if bytes.Equal(d.S, v.S) {
			return Omit
		}
	case KDouble:
		a, b := math.Float64frombits(d.F), math.Float64frombits(v.F)
		if d.F == v.F {
			if a != a { // identical NaN bits: "equal" is ambiguous
				return Either
			}
			return Omit
		}
		if a == b { // +0 / -0
			return Either
		}
	}
	return Emit
}

// EncOpts tunes RefEncodeOpts for generating foreign-writer messages.
type EncOpts struct {
	// EitherOmit decides the ambiguous float cases (true = omit).
	EitherOmit bool
	// Mask, when non-nil, decides the i-th ambiguous case met (in encoding order) by
	// bit i (1 = omit); Mask.N counts the decisions taken.
	Mask *EitherMask
}

// EitherMask enumerates the outcomes of the ambiguous omission cases.
type EitherMask struct {
	Bits uint64
	N    int
}

func (o EncOpts) omitEither() bool {
	if o.Mask != nil {
		i := o.Mask.N
		o.Mask.N++
		return i < 64 && o.Mask.Bits&(1<<uint(i)) != 0
	}
	return o.EitherOmit
}

// RefEncodeAll returns every reference encoding allowed for (s, v): one per outcome of
// the ambiguous omission cases (at most 2^limit of them; nil if there are more).
func RefEncodeAll(s *StructSpec, v *SVal, limit int) [][]byte {
	m := &EitherMask{}
	first := appendStructRef(nil, s, v, EncOpts{Mask: m})
	if m.N == 0 {
		return [][]byte{first}
	}
	if m.N > limit {
		return nil
	}
	out := [][]byte{first}
	for bits := uint64(1); bits < 1<<uint(m.N); bits++ {
		out = append(out, appendStructRef(nil, s, v, EncOpts{Mask: &EitherMask{Bits: bits}}))
	}
	return out
}

// RefEncode is the reference Thrift Binary encoder for (spec, value).
func RefEncode(s *StructSpec, v *SVal) []byte {
	return appendStructRef(nil, s, v, EncOpts{})
}

// RefEncodeOpts is RefEncode with options.
func RefEncodeOpts(s *StructSpec, v *SVal, o EncOpts) []byte {
	return appendStructRef(nil, s, v, o)
}

func appendStructRef(out []byte, s *StructSpec, v *SVal, o EncOpts) []byte {
	for _, f := range s.Sorted() {
		fv := v.F[f.ID]
		switch OmitRule(s, f, fv) {
		case Omit:
			continue
		case Either:
			if o.omitEither() {
				continue
			}
		}
		out = append(out, f.Type.WT(), byte(f.ID>>8), byte(f.ID))
		out = appendValRef(out, f.Type, fv, o)
	}
	if s.Holder {
		out = append(out, v.Unk...)
	}
	return append(out, 0)
}

func appendValRef(out []byte, t *TypeSpec, v Val, o EncOpts) []byte {
	switch t.Kind {
	case KBool:
		if v.B {
			return append(out, 1)
		}
		return append(out, 0)
	case KI8:
		return append(out, byte(v.I))
	case KI16:
		return binary.BigEndian.AppendUint16(out, uint16(v.I))
	case KI32, KEnum:
		return binary.BigEndian.AppendUint32(out, uint32(v.I))
	case KI64:
		return binary.BigEndian.AppendUint64(out, uint64(v.I))
	case KDouble:
		return binary.BigEndian.AppendUint64(out, v.F)
	case KString, KBinary:
		out = binary.BigEndian.AppendUint32(out, uint32(len(v.S)))
		return append(out, v.S...)
	case KList, KSet:
		out = append(out, t.Elem.WT())
		out = binary.BigEndian.AppendUint32(out, uint32(len(v.L)))
		for _, e := range v.L {
			out = appendValRef(out, t.Elem, e, o)
		}
		return out
	case KMap:
		out = append(out, t.Key.WT(), t.Elem.WT())
		out = binary.BigEndian.AppendUint32(out, uint32(len(v.M)))
		for _, kv := range v.M {
			out = appendValRef(out, t.Key, kv.K, o)
			out = appendValRef(out, t.Elem, kv.V, o)
		}
		return out
	case KStruct:
		if v.Nil || v.St == nil {
			return append(out, 0)
		}
		return appendStructRef(out, t.SS(), v.St, o)
	}
	panic("bad kind")
}

// AmbiguousOmit reports whether any field of v (recursively) falls in the Either class.
func AmbiguousOmit(s *StructSpec, v *SVal) bool {
	amb := false
	var ws func(s *StructSpec, v *SVal)
	var wt func(t *TypeSpec, v Val)
	wt = func(t *TypeSpec, v Val) {
		switch t.Kind {
		case KList, KSet:
			for _, e := range v.L {
				wt(t.Elem, e)
			}
		case KMap:
			for _, kv := range v.M {
				wt(t.Key, kv.K)
				wt(t.Elem, kv.V)
			}
		case KStruct:
			if !v.Nil && v.St != nil {
				ws(t.SS(), v.St)
			}
		}
	}
	ws = func(s *StructSpec, v *SVal) {
		for _, f := range s.Fields {
			fv := v.F[f.ID]
			if OmitRule(s, f, fv) == Either {
				amb = true
			}
			if f.GoPtr && fv.Nil {
				continue
			}
			wt(f.Type, fv)
		}
	}
	ws(s, v)
	return amb
}
