package core

import (
	"bytes"
	"encoding/binary"
	"fmt"
	"math"
	"reflect"
	"strconv"
)

// VKind classifies a (type, bytes) pair.
type VKind uint8

const (
	VOK   VKind = iota // well-formed: decoding must succeed with the modelled result
	VErr               // malformed: decoding must return an error
	VGray              // the properties do not fix success vs error
)

func (k VKind) String() string { return [...]string{"ok", "err", "gray"}[k] }

// Verdict is the reference decoder's answer.
type Verdict struct {
	Kind VKind
	N    int // bytes consumed (valid when Kind == VOK, or VGray and decoding succeeds)
	// Why describes the first problem for VErr/VGray.
	Why string
	// MissingRequired: the message is syntactically well-formed but lacks required
	// fields: the error must be INVALID_DATA and name one of these Go field names.
	MissingRequired []string
	// DepthErr: the error must be DEPTH_LIMIT.
	DepthErr bool
	// GrayValue: success is definite but the decoded value is not fixed by the
	// properties (bool byte >= 2, duplicate field ids / map keys, by-value struct merged
	// into non-fresh prior contents).
	GrayValue bool
	GrayWhy   string
	// MaxDepth is the deepest nesting level reached (levels below the top-level struct).
	MaxDepth int
	// Skipped counts fields skipped (unknown id or other wire type), at any level.
	Skipped int
	// SkippedWithHolder counts skipped fields recorded into a holder.
	SkippedWithHolder int
	// OutOfOrder: some struct had non-ascending field ids on the wire.
	OutOfOrder bool
	// IdenticalDup: repeated occurrences of a known field carrying the same bytes (value decided)
	IdenticalDup int
	// Known is the number of known fields decoded, at any level.
	Known int
	// Views: extents (offset, length) of the non-empty values of nocopy fields, in message order.
	Views []Extent
	// NoCopyEmpty counts zero-length nocopy values.
	NoCopyEmpty int
	// Prealloc: bytes a decoder would allocate if it reserved count*size(element) for every
	// container it enters (each count already checked against the bytes remaining at its level).
	Prealloc uint64
	// kindGray: success vs error is not fixed (junk type codes in empty skipped containers).
	kindGray bool
}

// Extent is a byte range of the input.
type Extent struct{ Off, Len int }

// KindGray reports whether success vs error is left open for a reason other than depth.
func (v *Verdict) KindGray() bool { return v.kindGray }

// Depth bounds (levels): up to DepthSure is always accepted; from DepthMust on a
// DEPTH_LIMIT error is mandatory; in between either.
const (
	DepthSure = 48
	DepthMust = 1024
	// SkipDepthMust: nesting inside a skipped (unknown) field from which the skipper must refuse.
	SkipDepthMust = 1024
)

type decErr struct {
	why   string
	depth bool
}

func (e *decErr) Error() string { return e.why }

type mdec struct {
	b   []byte
	v   *Verdict
	err *decErr
}

// RefDecode decodes b into dest (modified in place; pass a clone) under spec s.
// dest must be a complete SVal for s. The returned verdict says what DecodeObject
// must do; when Kind==VOK (or VGray with success) dest holds the expected result.
func RefDecode(s *StructSpec, b []byte, dest *SVal) Verdict {
	v := Verdict{}
	d := &mdec{b: b, v: &v}
	pos, ok := d.structBody(s, 0, dest, 0)
	if !ok {
		v.Kind = VErr
		v.Why = d.err.why
		v.DepthErr = d.err.depth
		// between DepthSure and DepthMust the outcome is open, but only for depth errors
		return v
	}
	v.N = pos
	if len(v.MissingRequired) > 0 {
		v.Kind = VErr
		v.Why = fmt.Sprintf("missing required %v", v.MissingRequired)
		return v
	}
	if v.MaxDepth > DepthSure {
		v.Kind = VGray
		v.Why = fmt.Sprintf("nesting depth %d between the guaranteed %d and the limit", v.MaxDepth, DepthSure)
		return v
	}
	if v.kindGray {
		v.Kind = VGray
		return v
	}
	v.Kind = VOK
	return v
}

func (d *mdec) fail(why string) bool {
	if d.err == nil {
		d.err = &decErr{why: why}
	}
	return false
}

func (d *mdec) failDepth(why string) bool {
	if d.err == nil {
		d.err = &decErr{why: why, depth: true}
	}
	return false
}

func (d *mdec) note(depth int) bool {
	if depth > d.v.MaxDepth {
		d.v.MaxDepth = depth
	}
	if depth >= DepthMust {
		return d.failDepth(fmt.Sprintf("nesting depth %d reaches the limit", depth))
	}
	return true
}

func (d *mdec) gray(why string) {
	if !d.v.GrayValue {
		d.v.GrayValue = true
		d.v.GrayWhy = why
	}
}

// structBody decodes the fields of one struct starting at pos. depth is the level
// of this struct (0 = top level).
func (d *mdec) structBody(s *StructSpec, pos int, dest *SVal, depth int) (int, bool) {
	if !d.note(depth) {
		return pos, false
	}
	b := d.b
	seen := map[uint16]bool{}
	var firstRaw map[uint16][]byte
	var unk []byte
	var last int = -1
	for {
		if pos >= len(b) {
			return pos, d.fail("truncated: no field header / STOP")
		}
		tp := b[pos]
		if tp == WStop {
			pos++
			break
		}
		if pos+3 > len(b) {
			return pos, d.fail("truncated field header")
		}
		id := binary.BigEndian.Uint16(b[pos+1:])
		if int(id) < last {
			d.v.OutOfOrder = true
		}
		last = int(id)
		f := s.ByID(id)
		if f == nil || f.Type.WT() != tp {
			end, ok := d.skip(pos+3, tp, depth+1, 1)
			if !ok {
				return pos, false
			}
			d.v.Skipped++
			if s.Holder {
				d.v.SkippedWithHolder++
				unk = append(unk, b[pos:end]...)
			}
			pos = end
			continue
		}
		cur := dest.F[id]
		nv, end, ok := d.fieldValue(s, f, pos+3, cur, depth+1)
		if !ok {
			return pos, false
		}
		if seen[id] {
			// which occurrence counts is open - unless they carry the same bytes: then "exactly the
			// transmitted value" is that value whichever way they are combined (a by-value struct
			// decoded over its own earlier contents is flagged where it is decoded; a nocopy view
			// may be of either occurrence)
			if f.NoCopy || !bytes.Equal(firstRaw[id], b[pos+3:end]) {
				d.gray(fmt.Sprintf("duplicate field id %d", id))
			} else {
				d.v.IdenticalDup++
			}
		} else {
			if firstRaw == nil {
				firstRaw = map[uint16][]byte{}
			}
			firstRaw[id] = b[pos+3 : end]
		}
		dest.F[id] = nv
		if f.NoCopy {
			if len(nv.S) > 0 {
				d.v.Views = append(d.v.Views, Extent{end - len(nv.S), len(nv.S)})
			} else {
				d.v.NoCopyEmpty++
			}
		}
		seen[id] = true
		d.v.Known++
		pos = end
	}
	for _, f := range s.Sorted() {
		if f.Req == Required && !seen[f.ID] {
			d.v.MissingRequired = append(d.v.MissingRequired, f.Name)
		}
	}
	if s.Holder && len(unk) > 0 {
		dest.Unk = unk
		dest.UnkNil = false
	}
	return pos, true
}

func (d *mdec) fieldValue(s *StructSpec, f *FieldSpec, pos int, cur Val, depth int) (Val, int, bool) {
	// optional pointer scalar/string: a fresh pointee, then as the plain type
	if f.GoPtr {
		cur = ZeroType(f.Type)
	}
	return d.value(f.Type, pos, cur, depth, true)
}

// value decodes one value of type t at pos. cur is the current destination content
// (meaningful only for by-value structs). isField: t sits directly in a struct field.
func (d *mdec) value(t *TypeSpec, pos int, cur Val, depth int, isField bool) (Val, int, bool) {
	b := d.b
	if w := t.FixedWidth(); w > 0 {
		if pos+w > len(b) {
			return cur, pos, d.fail("truncated scalar")
		}
		var out Val
		switch t.Kind {
		case KBool:
			out.B = b[pos] != 0
			if b[pos] > 1 {
				d.gray("bool byte >= 2")
			}
		case KI8:
			out.I = int64(int8(b[pos]))
		case KI16:
			out.I = int64(int16(binary.BigEndian.Uint16(b[pos:])))
		case KI32, KEnum:
			out.I = int64(int32(binary.BigEndian.Uint32(b[pos:])))
		case KI64:
			out.I = int64(binary.BigEndian.Uint64(b[pos:]))
		case KDouble:
			out.F = binary.BigEndian.Uint64(b[pos:])
		}
		return out, pos + w, true
	}
	switch t.Kind {
	case KString, KBinary:
		// a string leaf at the deepest position also consumes a level in frugal; the
		// model does not count it (levels are containers and structs), so it only
		// matters in the gray band.
		if pos+4 > len(b) {
			return cur, pos, d.fail("truncated string length")
		}
		l := int(int32(binary.BigEndian.Uint32(b[pos:])))
		if l < 0 {
			return cur, pos, d.fail("negative string length")
		}
		if l > len(b)-pos-4 {
			return cur, pos, d.fail("string length exceeds input")
		}
		return Val{S: append([]byte{}, b[pos+4:pos+4+l]...)}, pos + 4 + l, true
	case KList, KSet:
		if !d.note(depth) {
			return cur, pos, false
		}
		if pos+5 > len(b) {
			return cur, pos, d.fail("truncated list header")
		}
		et := b[pos]
		l := int(int32(binary.BigEndian.Uint32(b[pos+1:])))
		if l < 0 {
			return cur, pos, d.fail("negative list count")
		}
		if et != t.Elem.WT() {
			return cur, pos, d.fail(fmt.Sprintf("list element type %d, schema says %d", et, t.Elem.WT()))
		}
		pos += 5
		if l > (len(b)-pos)/wtMin(et) {
			return cur, pos, d.fail("list count exceeds input")
		}
		d.v.Prealloc += uint64(l) * elemFootprint(t.Elem)
		out := Val{L: make([]Val, 0, min(l, 1<<16))}
		for i := 0; i < l; i++ {
			e, end, ok := d.value(t.Elem, pos, d.freshElem(t.Elem), depth+1, false)
			if !ok {
				return cur, pos, false
			}
			out.L = append(out.L, e)
			pos = end
		}
		return out, pos, true
	case KMap:
		if !d.note(depth) {
			return cur, pos, false
		}
		if pos+6 > len(b) {
			return cur, pos, d.fail("truncated map header")
		}
		kt, vt := b[pos], b[pos+1]
		l := int(int32(binary.BigEndian.Uint32(b[pos+2:])))
		if l < 0 {
			return cur, pos, d.fail("negative map count")
		}
		if kt != t.Key.WT() || vt != t.Elem.WT() {
			return cur, pos, d.fail(fmt.Sprintf("map types %d/%d, schema says %d/%d", kt, vt, t.Key.WT(), t.Elem.WT()))
		}
		pos += 6
		if l > (len(b)-pos)/(wtMin(kt)+wtMin(vt)) {
			return cur, pos, d.fail("map count exceeds input")
		}
		d.v.Prealloc += uint64(l) * (elemFootprint(t.Key) + elemFootprint(t.Elem) + 16)
		out := Val{M: make([]KV, 0, min(l, 1<<16))}
		var idx map[string]int
		for i := 0; i < l; i++ {
			k, end, ok := d.value(t.Key, pos, d.freshElem(t.Key), depth+1, false)
			if !ok {
				return cur, pos, false
			}
			v, end2, ok := d.value(t.Elem, end, d.freshElem(t.Elem), depth+1, false)
			if !ok {
				return cur, pos, false
			}
			pos = end2
			// duplicate detection: linear while small, through an index beyond that
			j := -1
			if idx == nil && len(out.M) >= 32 {
				idx = make(map[string]int, l)
				for x := range out.M {
					if ks, ok := goKeyString(t.Key, out.M[x].K); ok {
						idx[ks] = x
					}
				}
			}
			if idx == nil {
				j = findKey(t.Key, out.M, k)
			} else if ks, ok := goKeyString(t.Key, k); ok {
				if x, hit := idx[ks]; hit {
					j = x
				} else {
					idx[ks] = len(out.M)
				}
			}
			if j >= 0 {
				d.gray("duplicate map key")
				out.M[j] = KV{k, v}
			} else {
				out.M = append(out.M, KV{k, v})
			}
		}
		return out, pos, true
	case KStruct:
		ss := t.SS()
		var dst *SVal
		if t.Ptr || !isField {
			// fresh struct: zero, declared defaults, then the message
			dst = FreshStruct(ss)
		} else {
			// by-value struct field: initialised in place and merged
			dst = cur.St.Clone()
			if dst == nil {
				dst = ZeroStruct(ss)
			}
			if !structIsFresh(ss, dst) {
				d.gray("by-value struct field decoded over non-fresh prior contents")
			}
			ApplyInit(ss, dst)
		}
		end, ok := d.structBody(ss, pos, dst, depth)
		if !ok {
			return cur, pos, false
		}
		return Val{St: dst}, end, true
	}
	return cur, pos, d.fail("bad kind")
}

func (d *mdec) freshElem(t *TypeSpec) Val {
	return Val{}
}

func structIsFresh(s *StructSpec, v *SVal) bool {
	return EqualStruct(s, v, FreshStruct(s), EqOpts{}, "") == nil ||
		EqualStruct(s, v, ZeroStruct(s), EqOpts{}, "") == nil
}

// goKeyString renders a key so that two keys are equal under Go map-key equality iff their
// strings are equal; ok=false for keys that equal no other key (NaN, struct pointers).
func goKeyString(t *TypeSpec, k Val) (string, bool) {
	switch t.Kind {
	case KBool:
		if k.B {
			return "t", true
		}
		return "f", true
	case KI8, KI16, KI32, KI64, KEnum:
		return strconv.FormatInt(k.I, 10), true
	case KDouble:
		f := math.Float64frombits(k.F)
		if f != f {
			return "", false
		}
		if f == 0 {
			return "0", true // +0 == -0
		}
		return strconv.FormatUint(k.F, 16), true
	case KString:
		return string(k.S), true
	}
	return "", false
}

// findKey finds an entry whose key is equal under Go map-key equality.
func findKey(t *TypeSpec, m []KV, k Val) int {
	for i := range m {
		o := m[i].K
		switch t.Kind {
		case KBool:
			if o.B == k.B {
				return i
			}
		case KI8, KI16, KI32, KI64, KEnum:
			if o.I == k.I {
				return i
			}
		case KDouble:
			if math.Float64frombits(o.F) == math.Float64frombits(k.F) {
				return i
			}
		case KString:
			if string(o.S) == string(k.S) {
				return i
			}
		case KStruct:
			// pointer keys: every decoded key is a distinct pointer
		}
	}
	return -1
}

// skip skips a value of wire type t at pos; depth = level of that value; sd = nesting
// inside the skipped field (1 = the field's own value).
func (d *mdec) skip(pos int, t byte, depth, sd int) (int, bool) {
	b := d.b
	if w := wtWidth(t); w > 0 {
		if pos+w > len(b) {
			return pos, d.fail("truncated scalar in skipped field")
		}
		return pos + w, true
	}
	switch t {
	case WString:
		if pos+4 > len(b) {
			return pos, d.fail("truncated string length in skipped field")
		}
		l := int(int32(binary.BigEndian.Uint32(b[pos:])))
		if l < 0 {
			return pos, d.fail("negative string length in skipped field")
		}
		if l > len(b)-pos-4 {
			return pos, d.fail("string length exceeds input in skipped field")
		}
		return pos + 4 + l, true
	case WStruct:
		if !d.note(depth) {
			return pos, false
		}
		for {
			if pos >= len(b) {
				return pos, d.fail("truncated struct in skipped field")
			}
			ft := b[pos]
			if ft == WStop {
				return pos + 1, true
			}
			if pos+3 > len(b) {
				return pos, d.fail("truncated field header in skipped field")
			}
			end, ok := d.skip(pos+3, ft, depth+1, sd+1)
			if !ok {
				return pos, false
			}
			pos = end
		}
	case WList, WSet:
		if !d.note(depth) {
			return pos, false
		}
		if pos+5 > len(b) {
			return pos, d.fail("truncated list header in skipped field")
		}
		et := b[pos]
		l := int(int32(binary.BigEndian.Uint32(b[pos+1:])))
		if l < 0 {
			return pos, d.fail("negative list count in skipped field")
		}
		pos += 5
		if l == 0 {
			if !validWT[et] {
				d.v.grayKind("junk element type in empty skipped container")
			}
			return pos, true
		}
		if !validWT[et] {
			return pos, d.fail("invalid element type in skipped list")
		}
		if l > (len(b)-pos)/wtMin(et) {
			return pos, d.fail("list count exceeds input in skipped field")
		}
		for i := 0; i < l; i++ {
			end, ok := d.skip(pos, et, depth+1, sd+1)
			if !ok {
				return pos, false
			}
			pos = end
		}
		return pos, true
	case WMap:
		if !d.note(depth) {
			return pos, false
		}
		if pos+6 > len(b) {
			return pos, d.fail("truncated map header in skipped field")
		}
		kt, vt := b[pos], b[pos+1]
		l := int(int32(binary.BigEndian.Uint32(b[pos+2:])))
		if l < 0 {
			return pos, d.fail("negative map count in skipped field")
		}
		pos += 6
		if l == 0 {
			if !validWT[kt] || !validWT[vt] {
				d.v.grayKind("junk key/value type in empty skipped map")
			}
			return pos, true
		}
		if !validWT[kt] || !validWT[vt] {
			return pos, d.fail("invalid key/value type in skipped map")
		}
		if l > (len(b)-pos)/(wtMin(kt)+wtMin(vt)) {
			return pos, d.fail("map count exceeds input in skipped field")
		}
		for i := 0; i < l; i++ {
			end, ok := d.skip(pos, kt, depth+1, sd+1)
			if !ok {
				return pos, false
			}
			end, ok = d.skip(end, vt, depth+1, sd+1)
			if !ok {
				return pos, false
			}
			pos = end
		}
		return pos, true
	}
	return pos, d.fail(fmt.Sprintf("invalid type code %d", t))
}

// grayKind marks the whole verdict as open (success vs error not fixed).
func (v *Verdict) grayKind(why string) {
	v.kindGray = true
	if v.Why == "" {
		v.Why = why
	}
}

// elemFootprint: Go memory of one element of type t (the pointee included for struct pointers).
func elemFootprint(t *TypeSpec) uint64 {
	rt := GoType(t)
	n := uint64(rt.Size())
	if rt.Kind() == reflect.Ptr {
		n += uint64(rt.Elem().Size())
	}
	return n
}
