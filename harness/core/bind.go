package core

import (
	"fmt"
	"math"
	"reflect"
	"strings"
	"sync"
	"unsafe"
)

// Pre-declared named Go types usable from reflect.StructOf.
type (
	E1 int64
	E2 int64
	E3 int64
	E4 int64

	TBool bool
	TI8   int8
	TI16  int16
	TI32  int32
	TI64  int64
	TF64  float64
	TStr  string
	TBin  []byte

	// EmbPlain is embedded (with a tag on the embedding field) to check that embedded
	// fields are ignored.
	EmbPlain struct {
		Inner int32 `frugal:"1,default,i32"`
		Q     int64
	}

	// EmbHolder is embedded to check that a holder declared only inside an embedded
	// struct is not taken for the outer struct's holder.
	EmbHolder struct {
		_unknownFields []byte
		Z              int64
	}
)

var namedGoTypes = map[string]reflect.Type{
	"E1": reflect.TypeOf(E1(0)), "E2": reflect.TypeOf(E2(0)), "E3": reflect.TypeOf(E3(0)), "E4": reflect.TypeOf(E4(0)),
	"TBool": reflect.TypeOf(TBool(false)), "TI8": reflect.TypeOf(TI8(0)), "TI16": reflect.TypeOf(TI16(0)),
	"TI32": reflect.TypeOf(TI32(0)), "TI64": reflect.TypeOf(TI64(0)), "TF64": reflect.TypeOf(TF64(0)),
	"TStr": reflect.TypeOf(TStr("")), "TBin": reflect.TypeOf(TBin(nil)),
}

// EnumNames lists the enum type names available to anonymous types.
var EnumNames = []string{"E1", "E2", "E3", "E4"}

// TypedefFor returns the typedef name for a scalar kind.
func TypedefFor(k Kind) string {
	switch k {
	case KBool:
		return "TBool"
	case KI8:
		return "TI8"
	case KI16:
		return "TI16"
	case KI32:
		return "TI32"
	case KI64:
		return "TI64"
	case KDouble:
		return "TF64"
	case KString:
		return "TStr"
	case KBinary:
		return "TBin"
	}
	return ""
}

// RegisterGoType registers an extra named Go type (enums/typedefs of generated source).
func RegisterGoType(name string, t reflect.Type) { namedGoTypes[name] = t }

const pkgPath = "verif/harness/core"

var (
	bindMu     sync.Mutex
	builtTypes = map[*StructSpec]*Bound{}
	namedTypes = map[string]reflect.Type{}
)

// RegisterStructType binds a named spec to its compiled Go type.
func RegisterStructType(s *StructSpec, t reflect.Type) {
	RegisterSpec(s)
	namedTypes[s.Name] = t
}

// Bound is a StructSpec bound to a Go struct type.
type Bound struct {
	Spec   *StructSpec
	Type   reflect.Type
	idx    map[uint16]int // field id -> Go field index
	holder int            // Go field index of _unknownFields, -1 if none
	extras []int          // Go field indexes of extras
}

// Bind returns (building if needed) the Go type for s.
func Bind(s *StructSpec) *Bound {
	bindMu.Lock()
	defer bindMu.Unlock()
	return bindLocked(s)
}

func bindLocked(s *StructSpec) *Bound {
	if b := builtTypes[s]; b != nil {
		return b
	}
	b := &Bound{Spec: s, idx: map[uint16]int{}, holder: -1}
	if s.Name != "" {
		t := namedTypes[s.Name]
		if t == nil {
			panic("named struct type not registered: " + s.Name)
		}
		b.Type = t
		builtTypes[s] = b // before recursing (recursive types)
		for _, f := range s.Fields {
			sf, ok := t.FieldByName(f.Name)
			if !ok || len(sf.Index) != 1 {
				panic("field " + f.Name + " not found in " + s.Name)
			}
			b.idx[f.ID] = sf.Index[0]
		}
		if s.Holder {
			sf, ok := t.FieldByName("_unknownFields")
			if !ok || len(sf.Index) != 1 {
				panic("holder not found in " + s.Name)
			}
			b.holder = sf.Index[0]
		}
		for _, x := range s.Extras {
			n := x.Name
			switch x.Kind {
			case 2:
				n = "EmbPlain"
			case 3:
				n = "EmbHolder"
			}
			sf, ok := t.FieldByName(n)
			if !ok || len(sf.Index) != 1 {
				panic("extra " + n + " not found in " + s.Name)
			}
			b.extras = append(b.extras, sf.Index[0])
		}
		return b
	}
	// anonymous: reflect.StructOf
	var sfs []reflect.StructField
	addExtra := func(x Extra) {
		switch x.Kind {
		case 0:
			sfs = append(sfs, reflect.StructField{Name: x.Name, Type: reflect.TypeOf(uint32(0))})
		case 1:
			sfs = append(sfs, reflect.StructField{Name: x.Name, PkgPath: pkgPath, Type: reflect.TypeOf(int32(0)),
				Tag: reflect.StructTag(`frugal:"` + x.tagBody() + `"`)})
		case 2:
			sfs = append(sfs, reflect.StructField{Name: "EmbPlain", Anonymous: true, Type: reflect.TypeOf(EmbPlain{}),
				Tag: reflect.StructTag(`frugal:"` + x.tagBody() + `"`)})
		case 3:
			sfs = append(sfs, reflect.StructField{Name: "EmbHolder", Anonymous: true, Type: reflect.TypeOf(EmbHolder{})})
		}
		b.extras = append(b.extras, len(sfs)-1)
	}
	for i, f := range s.Fields {
		for _, x := range s.Extras {
			if x.Pos == i {
				addExtra(x)
			}
		}
		b.idx[f.ID] = len(sfs)
		sfs = append(sfs, reflect.StructField{Name: f.Name, Type: goFieldType(f), Tag: reflect.StructTag(RenderTag(f))})
	}
	for _, x := range s.Extras {
		if x.Pos >= len(s.Fields) {
			addExtra(x)
		}
	}
	if s.Holder {
		b.holder = len(sfs)
		sfs = append(sfs, reflect.StructField{Name: "_unknownFields", PkgPath: pkgPath, Type: reflect.TypeOf([]byte(nil))})
	}
	b.Type = reflect.StructOf(sfs)
	builtTypes[s] = b
	return b
}

// tagBody of an extra: a plausible tag that would collide with nothing if honoured
// wrongly it would add field 32000.
func (x Extra) tagBody() string { return "32000,default,i32" }

func goFieldType(f *FieldSpec) reflect.Type {
	t := goType(f.Type)
	if f.GoPtr {
		return reflect.PointerTo(t)
	}
	return t
}

func goType(t *TypeSpec) reflect.Type {
	if t.Named != "" {
		nt := namedGoTypes[t.Named]
		if nt == nil {
			panic("unknown named go type " + t.Named)
		}
		return nt
	}
	switch t.Kind {
	case KBool:
		return reflect.TypeOf(false)
	case KI8:
		return reflect.TypeOf(int8(0))
	case KI16:
		return reflect.TypeOf(int16(0))
	case KI32:
		return reflect.TypeOf(int32(0))
	case KI64:
		if t.GoInt {
			return reflect.TypeOf(int(0))
		}
		return reflect.TypeOf(int64(0))
	case KDouble:
		return reflect.TypeOf(float64(0))
	case KString:
		return reflect.TypeOf("")
	case KBinary:
		return reflect.TypeOf([]byte(nil))
	case KEnum:
		panic("enum without a named type")
	case KList, KSet:
		return reflect.SliceOf(goType(t.Elem))
	case KMap:
		return reflect.MapOf(goType(t.Key), goType(t.Elem))
	case KStruct:
		st := bindLocked(t.SS()).Type
		if t.Ptr {
			return reflect.PointerTo(st)
		}
		return st
	}
	panic("bad kind")
}

// GoType returns the Go type of a type position.
func GoType(t *TypeSpec) reflect.Type {
	bindMu.Lock()
	defer bindMu.Unlock()
	return goType(t)
}

// ---------------------------------------------------------------------------
// tags

var otherTags = [][2]string{{"", ""}, {`json:"name,omitempty" `, ""}, {`doc:"say \"hi\", then leave" `, ""}, {"", ` json:"x" db:"-"`},
	{`example:"a\\b \"frugal:\" c" validate:"gte=0,lte=130" `, ` json:"-"`}}

// RenderTag renders the struct tag of f according to its Spelling.
func RenderTag(f *FieldSpec) string {
	o := otherTags[int(f.Sp.Other)%len(otherTags)]
	return o[0] + renderOwnTag(f) + o[1]
}

func renderOwnTag(f *FieldSpec) string {
	sp := f.Sp
	body := tagBody(f, sp)
	switch sp.Carrier {
	case 1:
		return `thrift:"` + sp.ThriftName + `,` + body + `"`
	case 2:
		// a contradicting thrift tag that must lose against the frugal tag
		other := fmt.Sprintf("%d,required,i64", (uint32(f.ID)+7)%65536)
		return `thrift:"` + sp.ThriftName + `,` + other + `" frugal:"` + body + `"`
	}
	return `frugal:"` + body + `"`
}

func pad(s string, on bool) string {
	if on {
		return " " + s + "  "
	}
	return s
}

func tagBody(f *FieldSpec, sp Spelling) string {
	id := pad(fmt.Sprintf("%d", f.ID), sp.Spaces&1 != 0)
	canOmitAnn := AnnotationOptional(f.Type)
	omitAnn := sp.OmitAnn && canOmitAnn && !f.NoCopy
	if omitAnn && sp.OmitReq && f.Req == Default {
		return id
	}
	parts := []string{id, pad(f.Req.String(), sp.Spaces&2 != 0)}
	if !omitAnn {
		parts = append(parts, pad(Annotation(f.Type, sp), sp.Spaces&4 != 0))
	} else if f.NoCopy {
		parts = append(parts, "")
	}
	if f.NoCopy {
		parts = append(parts, pad("nocopy", sp.Spaces&2 != 0))
	}
	return strings.Join(parts, ",")
}

// AnnotationOptional: the Go type alone fixes the schema (no list/set/enum inside).
func AnnotationOptional(t *TypeSpec) bool {
	switch t.Kind {
	case KList, KSet, KEnum:
		return false
	case KMap:
		return AnnotationOptional(t.Key) && AnnotationOptional(t.Elem)
	}
	return true
}

// Annotation renders the Thrift type annotation.
func Annotation(t *TypeSpec, sp Spelling) string {
	in := sp.Spaces&8 != 0
	sep := func(s string) string {
		if in {
			return " " + s + " "
		}
		return s
	}
	switch t.Kind {
	case KI8:
		if sp.ByteAlias {
			return "byte"
		}
		return "i8"
	case KEnum:
		if sp.PkgQual {
			return "pkg." + t.Named
		}
		return t.Named
	case KList, KSet:
		return t.Kind.String() + sep("<") + Annotation(t.Elem, sp) + sep(">")
	case KMap:
		return "map" + sep("<") + Annotation(t.Key, sp) + sep(":") + Annotation(t.Elem, sp) + sep(">")
	case KStruct:
		if t.Ref != "" {
			if sp.PkgQual {
				return "pkg." + t.Ref
			}
			return t.Ref
		}
		name := "Anon"
		if t.Struct.Name != "" {
			name = t.Struct.Name
		}
		if sp.PkgQual {
			return "pkg." + name
		}
		return name
	}
	return t.Kind.String()
}

// ---------------------------------------------------------------------------
// lower / lift

// FieldIndex returns the Go field index of the field with the given id.
func (b *Bound) FieldIndex(id uint16) int { return b.idx[id] }

// HolderIndex returns the Go field index of _unknownFields (-1 if none).
func (b *Bound) HolderIndex() int { return b.holder }

// New allocates a zero value of the bound type and returns a pointer Value (*T).
func (b *Bound) New() reflect.Value { return reflect.New(b.Type) }

// Lower writes v into the struct rv (addressable struct Value of b.Type). Extras get
// sentinel values.
func (b *Bound) Lower(v *SVal, rv reflect.Value) {
	for _, f := range b.Spec.Fields {
		lowerField(f, v.F[f.ID], rv.Field(b.idx[f.ID]))
	}
	if b.holder >= 0 {
		h := rv.Field(b.holder)
		hp := (*[]byte)(unsafe.Pointer(h.UnsafeAddr()))
		if v.Unk == nil {
			*hp = nil
		} else {
			// spare capacity filled with a sentinel: nothing may be written behind len either
			hb := make([]byte, len(v.Unk), len(v.Unk)+1+spareCap(len(v.Unk)))
			copy(hb, v.Unk)
			fillSpare(hb)
			*hp = hb
		}
	}
	b.SetExtras(rv)
}

// SetExtras stores sentinels into the fields the codec must ignore.
func (b *Bound) SetExtras(rv reflect.Value) {
	for _, i := range b.extras {
		f := rv.Field(i)
		p := unsafe.Pointer(f.UnsafeAddr())
		switch f.Kind() {
		case reflect.Uint32:
			*(*uint32)(p) = 0xC0FFEE01
		case reflect.Int32:
			*(*int32)(p) = 0x5EED1234
		case reflect.Struct:
			if f.Type() == reflect.TypeOf(EmbHolder{}) {
				*(*EmbHolder)(p) = EmbHolder{Z: 0x7A7A7A7A7A7A}
			} else {
				*(*EmbPlain)(p) = EmbPlain{Inner: 0x0BADF00D, Q: -0x123456789}
			}
		}
	}
}

// CheckExtras verifies the sentinels are intact.
func (b *Bound) CheckExtras(rv reflect.Value) error {
	for _, i := range b.extras {
		f := rv.Field(i)
		p := unsafe.Pointer(f.UnsafeAddr())
		ok := true
		switch f.Kind() {
		case reflect.Uint32:
			ok = *(*uint32)(p) == 0xC0FFEE01
		case reflect.Int32:
			ok = *(*int32)(p) == 0x5EED1234
		case reflect.Struct:
			if f.Type() == reflect.TypeOf(EmbHolder{}) {
				e := (*EmbHolder)(p)
				ok = e._unknownFields == nil && e.Z == 0x7A7A7A7A7A7A
			} else {
				ok = *(*EmbPlain)(p) == EmbPlain{Inner: 0x0BADF00D, Q: -0x123456789}
			}
		}
		if !ok {
			return fmt.Errorf("ignored field %s was modified", b.Type.Field(i).Name)
		}
	}
	return nil
}

func lowerField(f *FieldSpec, v Val, rv reflect.Value) {
	if f.GoPtr {
		if v.Nil {
			rv.Set(reflect.Zero(rv.Type()))
			return
		}
		p := reflect.New(rv.Type().Elem())
		lowerType(f.Type, v, p.Elem())
		rv.Set(p)
		return
	}
	lowerType(f.Type, v, rv)
}

// lowerType writes v into the addressable rv.
func lowerType(t *TypeSpec, v Val, rv reflect.Value) {
	switch t.Kind {
	case KBool:
		rv.SetBool(v.B)
	case KI8, KI16, KI32, KI64, KEnum:
		rv.SetInt(v.I)
	case KDouble:
		*(*uint64)(unsafe.Pointer(rv.UnsafeAddr())) = v.F
	case KString:
		rv.SetString(string(v.S))
	case KBinary:
		if v.Nil {
			rv.Set(reflect.Zero(rv.Type()))
		} else {
			// spare capacity now and then: len and cap must not be confused by the codec
			bs := make([]byte, len(v.S), len(v.S)+spareCap(len(v.S)))
			copy(bs, v.S)
			fillSpare(bs)
			rv.SetBytes(bs)
		}
	case KList, KSet:
		if v.Nil {
			rv.Set(reflect.Zero(rv.Type()))
			return
		}
		s := reflect.MakeSlice(rv.Type(), len(v.L), len(v.L)+spareCap(len(v.L)))
		for i := range v.L {
			lowerType(t.Elem, v.L[i], s.Index(i))
		}
		rv.Set(s)
	case KMap:
		if v.Nil {
			rv.Set(reflect.Zero(rv.Type()))
			return
		}
		// every other map grows by plain inserts (no size hint): depending on the entry count it
		// is then in the middle of an incremental growth, which is what iteration code must survive
		m := reflect.MakeMap(rv.Type())
		if len(v.M)%2 == 0 {
			m = reflect.MakeMapWithSize(rv.Type(), len(v.M))
		}
		kt, vt := rv.Type().Key(), rv.Type().Elem()
		for _, kv := range v.M {
			k := reflect.New(kt).Elem()
			lowerType(t.Key, kv.K, k)
			e := reflect.New(vt).Elem()
			lowerType(t.Elem, kv.V, e)
			m.SetMapIndex(k, e)
		}
		rv.Set(m)
	case KStruct:
		b := Bind(t.SS())
		if t.Ptr {
			if v.Nil {
				rv.Set(reflect.Zero(rv.Type()))
				return
			}
			p := reflect.New(b.Type)
			b.Lower(v.St, p.Elem())
			rv.Set(p)
			return
		}
		b.Lower(v.St, rv)
	}
}

// Lift reads the struct rv into an SVal.
func (b *Bound) Lift(rv reflect.Value) *SVal {
	sv := &SVal{F: make(map[uint16]Val, len(b.Spec.Fields))}
	for _, f := range b.Spec.Fields {
		sv.F[f.ID] = liftField(f, rv.Field(b.idx[f.ID]))
	}
	if b.holder >= 0 {
		h := rv.Field(b.holder)
		var hb []byte
		if h.CanAddr() {
			hb = *(*[]byte)(unsafe.Pointer(h.UnsafeAddr()))
		} else {
			// non-addressable (map value copy): make an addressable copy first
			c := reflect.New(rv.Type()).Elem()
			c.Set(rv)
			hb = *(*[]byte)(unsafe.Pointer(c.Field(b.holder).UnsafeAddr()))
		}
		sv.UnkNil = hb == nil
		if len(hb) > 0 {
			sv.Unk = append([]byte{}, hb...)
		}
	}
	return sv
}

func liftField(f *FieldSpec, rv reflect.Value) Val {
	if f.GoPtr {
		if rv.IsNil() {
			return Val{Nil: true}
		}
		return liftType(f.Type, rv.Elem())
	}
	return liftType(f.Type, rv)
}

func liftType(t *TypeSpec, rv reflect.Value) Val {
	switch t.Kind {
	case KBool:
		// read the raw byte: a bool holding 2 is still "true" for Go
		return Val{B: rv.Bool()}
	case KI8, KI16, KI32, KI64, KEnum:
		return Val{I: rv.Int()}
	case KDouble:
		return Val{F: math.Float64bits(rv.Float())}
	case KString:
		return Val{S: []byte(rv.String())}
	case KBinary:
		if rv.IsNil() {
			return Val{Nil: true}
		}
		return Val{S: append([]byte{}, rv.Bytes()...)}
	case KList, KSet:
		if rv.IsNil() {
			return Val{Nil: true}
		}
		out := Val{L: make([]Val, rv.Len())}
		for i := 0; i < rv.Len(); i++ {
			out.L[i] = liftType(t.Elem, rv.Index(i))
		}
		return out
	case KMap:
		if rv.IsNil() {
			return Val{Nil: true}
		}
		out := Val{M: make([]KV, 0, rv.Len())}
		it := rv.MapRange()
		for it.Next() {
			out.M = append(out.M, KV{liftType(t.Key, it.Key()), liftType(t.Elem, it.Value())})
		}
		return out
	case KStruct:
		b := Bind(t.SS())
		if t.Ptr {
			if rv.IsNil() {
				return Val{Nil: true}
			}
			return Val{St: b.Lift(rv.Elem())}
		}
		return Val{St: b.Lift(rv)}
	}
	panic("bad kind")
}

// NewValue allocates *T, lowers v into it and returns the pointer as interface{}.
func (b *Bound) NewValue(v *SVal) reflect.Value {
	p := b.New()
	b.Lower(v, p.Elem())
	return p
}

// SpareSentinel fills the spare capacity (the bytes between len and cap) of lowered binaries
// and holders.
const SpareSentinel = 0xC3

func fillSpare(b []byte) {
	sp := b[len(b):cap(b)]
	for i := range sp {
		sp[i] = SpareSentinel
	}
}

// spareCap: a deterministic amount of spare capacity for lowered slices.
func spareCap(n int) int { return [4]int{0, 3, 0, 1}[n%4] }

// CheckHeaders verifies that every slice reachable from the struct is well formed
// (len <= cap): a decoder that writes a string header over a slice leaves cap == 0.
func (b *Bound) CheckHeaders(rv reflect.Value) error {
	var val func(ts *TypeSpec, rv reflect.Value, p string) error
	val = func(ts *TypeSpec, rv reflect.Value, p string) error {
		switch ts.Kind {
		case KBinary:
			if rv.Len() > rv.Cap() {
				return fmt.Errorf("%s: binary with len %d > cap %d", p, rv.Len(), rv.Cap())
			}
		case KList, KSet:
			if rv.Len() > rv.Cap() {
				return fmt.Errorf("%s: slice with len %d > cap %d", p, rv.Len(), rv.Cap())
			}
			for i := 0; i < rv.Len(); i++ {
				if err := val(ts.Elem, rv.Index(i), fmt.Sprintf("%s[%d]", p, i)); err != nil {
					return err
				}
			}
		case KMap:
			it := rv.MapRange()
			for it.Next() {
				if err := val(ts.Key, it.Key(), p+"{k}"); err != nil {
					return err
				}
				if err := val(ts.Elem, it.Value(), p+"{v}"); err != nil {
					return err
				}
			}
		case KStruct:
			if ts.Ptr {
				if rv.IsNil() {
					return nil
				}
				rv = rv.Elem()
			}
			return Bind(ts.SS()).CheckHeaders(rv)
		}
		return nil
	}
	for _, f := range b.Spec.Fields {
		fv := rv.Field(b.idx[f.ID])
		if f.GoPtr {
			if fv.IsNil() {
				continue
			}
			fv = fv.Elem()
		}
		if err := val(f.Type, fv, b.Type.Field(b.idx[f.ID]).Name); err != nil {
			return err
		}
	}
	return nil
}
