package core

import (
	"fmt"
	"math"

	"pgregory.net/rapid"
)

// GenCfg steers the type and value generators. Every random choice is a rapid draw.
type GenCfg struct {
	MaxFields    int // fields per struct (0 => 8)
	MaxNest      int // nesting of anonymous structs (0 => 2)
	MaxAnn       int // container nesting inside one annotation (0 => 3)
	Holder       bool
	HolderAlways bool // every struct declares the holder
	Extras       bool
	EmbHolder    bool // extras may include an embedded struct that itself declares a holder
	NoCopy       bool
	Spellings    bool     // randomise equivalent tag spellings
	NamedRefs    []string // registered named struct types usable as references
	BigIDs       bool     // allow ids from the boundary set / whole range
	NoByValue    bool     // never hold structs by value
	NoTypedefs   bool
	MaxBytes     int   // approximate bound of one value's encoded size (0 => 16 KiB)
	ContainerMax int   // max elements per container (0 => 40), rare large ones on top
	RequiredBias int   // percent of fields required (0 => 20)
	CountChoices []int // when set, container sizes are drawn from this list
	HolderBytes  bool  // holders may carry retained unknown-field bytes
	BinaryPtr    bool  // optional binary fields may be held as *[]byte
	Twins        bool  // add "twin" fields: same Go type, schema differing in one list<->set or enum<->i64 node at any depth
	NoNil        bool  // never generate nil containers / binaries / struct pointers
	// Huge: one value in ~120 carries one large leaf: a string/binary of 64 KiB..1 MiB or a container
	// of 1000..70000 scalar/short-string elements (elements derived from one drawn seed, not drawn
	// one by one)
	Huge bool
	// Exclusions for open known findings (counted by the caller).
	NoID65535        bool
	NoBinaryMapVal   bool
	NoZeroSizeStruct bool // avoid by-value structs with no fields
	NoWide           bool // no structs with 33..300 fields
	WideEnums        bool // enum variables may hold values outside int32 (size/buffer contract only: C04)
	maxNestZero      bool // every struct position is a named reference
}

func (c GenCfg) maxFields() int {
	if c.MaxFields == 0 {
		return 8
	}
	return c.MaxFields
}
func (c GenCfg) maxNest() int {
	if c.maxNestZero {
		return 0
	}
	if c.MaxNest == 0 {
		return 2
	}
	return c.MaxNest
}
func (c GenCfg) maxAnn() int {
	if c.MaxAnn == 0 {
		return 3
	}
	return c.MaxAnn
}

// IDBoundary is the explicit set of interesting field ids (presence-set word edges,
// index growth, uint16 range ends).
var IDBoundary = []uint16{0, 1, 31, 32, 63, 64, 65, 127, 128, 129, 255, 256, 257, 1023, 1024, 4095, 4096, 32767, 32768, 65534, 65535}

var bigIDTypes int // per-process count of generated types whose max id >= 4096

// BigIDBudget caps the number of types with huge ids per process (each costs frugal
// 8*(maxID+1) bytes forever).
var BigIDBudget = 48

var scalarKinds = []Kind{KBool, KI8, KI16, KI32, KI64, KDouble, KString, KEnum}

// GenStruct draws an anonymous struct spec.
func GenStruct(t *rapid.T, c GenCfg) *StructSpec {
	return genStruct(t, c, 0, "")
}

func genStruct(t *rapid.T, c GenCfg, nest int, label string) *StructSpec {
	s := &StructSpec{}
	nf := rapid.IntRange(0, c.maxFields()).Draw(t, label+"nfields")
	if nest > 0 && nf > 4 {
		nf = nf/2 + 1
	}
	if c.NoZeroSizeStruct && nf == 0 {
		nf = 1
	}
	// wide structs: more fields (and, now and then, more required fields) than one machine word of
	// presence bits; the fields beyond the first few are scalars, ids mostly dense
	wide, wideReq := false, 0
	if nest <= 1 && !c.NoWide && rapid.IntRange(0, 39).Draw(t, label+"wide") == 0 {
		wide = true
		nf = rapid.SampledFrom([]int{33, 63, 64, 65, 66, 70, 100, 129, 200, 300}).Draw(t, label+"widen")
		wideReq = rapid.SampledFrom([]int{0, 0, 50, 97}).Draw(t, label+"widereq")
	}
	used := map[uint16]bool{}
	allowBig := c.BigIDs && bigIDTypes < BigIDBudget
	maxid := 0
	for i := 0; i < nf; i++ {
		var id uint16
		for try := 0; ; try++ {
			mode := 0
			if c.BigIDs {
				mode = rapid.IntRange(0, 99).Draw(t, "idmode")
			}
			if wide && mode < 85 {
				mode = 0
			}
			switch {
			case mode < 55:
				id = uint16(rapid.IntRange(0, nf+2).Draw(t, "id"))
			case mode < 85:
				id = rapid.SampledFrom(IDBoundary).Draw(t, "idb")
			default:
				id = rapid.Uint16().Draw(t, "idu")
			}
			if !allowBig && id >= 4096 {
				id = id % 300
			}
			if c.NoID65535 && id == 65535 {
				id = 65534
			}
			if !used[id] {
				break
			}
			if try > 20 {
				for used[id] {
					id++
				}
				break
			}
		}
		used[id] = true
		if int(id) > maxid {
			maxid = int(id)
		}
		f := &FieldSpec{ID: id, Name: fmt.Sprintf("F%d_%d", i, id)}
		rb := c.RequiredBias
		if rb == 0 {
			rb = 20
		}
		if wideReq > 0 {
			rb = wideReq
		}
		r := rapid.IntRange(0, 99).Draw(t, "req")
		switch {
		case r < rb:
			f.Req = Required
		case r < rb+30:
			f.Req = Optional
		}
		if wide && i >= 6 {
			f.Type = scalarType(t, c, scalarKinds[rapid.IntRange(0, len(scalarKinds)-1).Draw(t, "widescalar")])
		} else {
			f.Type = genType(t, c, nest, 0, posField)
		}
		if f.Req == Optional && (f.Type.IsScalar() || f.Type.Kind == KString) {
			f.GoPtr = rapid.IntRange(0, 3).Draw(t, "goptr") != 0
		}
		if f.Req == Optional && f.Type.Kind == KBinary && c.BinaryPtr {
			// the optional-pointer form of binary (*[]byte): accepted by the tag parser like *string
			f.GoPtr = rapid.IntRange(0, 3).Draw(t, "binptr") == 0
		}
		if c.NoCopy && (f.Type.Kind == KString || f.Type.Kind == KBinary) {
			f.NoCopy = rapid.IntRange(0, 2).Draw(t, "nocopy") == 0
		}
		if c.Spellings {
			f.Sp = GenSpelling(t)
		}
		s.Fields = append(s.Fields, f)
	}
	if c.Twins && len(s.Fields) > 0 && rapid.IntRange(0, 3).Draw(t, "twin") == 0 {
		// the descriptor caches are keyed by Go type plus annotation: two fields whose Go types are
		// identical but whose Thrift meaning differs somewhere down the annotation must not share entries
		src := s.Fields[rapid.IntRange(0, len(s.Fields)-1).Draw(t, "twinof")]
		tw := cloneType(src.Type)
		var nodes []*TypeSpec
		var collect func(ts *TypeSpec)
		collect = func(ts *TypeSpec) {
			switch ts.Kind {
			case KList, KSet:
				nodes = append(nodes, ts)
				collect(ts.Elem)
			case KMap:
				collect(ts.Key)
				collect(ts.Elem)
			case KEnum:
				nodes = append(nodes, ts)
			case KI64:
				if ts.Named != "" {
					nodes = append(nodes, ts)
				}
			}
		}
		collect(tw)
		if len(nodes) > 0 {
			n := nodes[rapid.IntRange(0, len(nodes)-1).Draw(t, "twinnode")]
			switch n.Kind {
			case KList:
				n.Kind = KSet
			case KSet:
				n.Kind = KList
			case KEnum:
				n.Kind = KI64
			case KI64:
				n.Kind = KEnum
			}
			id := uint16(rapid.IntRange(0, 300).Draw(t, "twinid"))
			for used[id] {
				id++
			}
			used[id] = true
			s.Fields = append(s.Fields, &FieldSpec{ID: id, Name: fmt.Sprintf("Twin%d_%d", len(s.Fields), id), Req: src.Req, Type: tw, GoPtr: src.GoPtr && tw.Kind == src.Type.Kind})
			if c.Spellings {
				s.Fields[len(s.Fields)-1].Sp = GenSpelling(t)
			}
		}
	}
	if maxid >= 4096 {
		bigIDTypes++
	}
	// declaration order: a random permutation
	if len(s.Fields) > 1 && rapid.Bool().Draw(t, "shuffle") {
		perm := rapid.Permutation(s.Fields).Draw(t, "order")
		s.Fields = perm
	}
	if c.HolderAlways {
		s.Holder = true
	} else if c.Holder {
		s.Holder = rapid.IntRange(0, 3).Draw(t, "holder") == 0
	}
	if c.Extras && rapid.IntRange(0, 4).Draw(t, "extras") == 0 {
		n := rapid.IntRange(1, 3).Draw(t, "nextras")
		emb := map[uint8]bool{}
		for i := 0; i < n; i++ {
			hi := 2
			if c.EmbHolder {
				hi = 3
			}
			k := uint8(rapid.IntRange(0, hi).Draw(t, "xkind"))
			if k >= 2 {
				if emb[k] {
					k = 0
				}
				emb[k] = true
			}
			name := fmt.Sprintf("X%d", i)
			if k == 1 {
				name = fmt.Sprintf("x%d", i)
			}
			s.Extras = append(s.Extras, Extra{Pos: rapid.IntRange(0, len(s.Fields)).Draw(t, "xpos"), Kind: k, Name: name})
		}
	}
	return s
}

// GenSpelling draws a spelling.
func GenSpelling(t *rapid.T) Spelling {
	sp := Spelling{}
	sp.Carrier = uint8(rapid.SampledFrom([]int{0, 0, 0, 1, 1, 2}).Draw(t, "carrier"))
	if sp.Carrier != 0 {
		sp.ThriftName = rapid.SampledFrom([]string{"name", "", "x_y", "F1", "required", "1"}).Draw(t, "tname")
	}
	sp.OmitReq = rapid.Bool().Draw(t, "omitreq")
	sp.OmitAnn = rapid.Bool().Draw(t, "omitann")
	sp.ByteAlias = rapid.Bool().Draw(t, "bytealias")
	sp.PkgQual = rapid.Bool().Draw(t, "pkgq")
	sp.Spaces = uint8(rapid.IntRange(0, 15).Draw(t, "spaces"))
	if rapid.IntRange(0, 3).Draw(t, "othertags") == 0 {
		sp.Other = uint8(rapid.IntRange(1, 4).Draw(t, "othertag"))
	}
	return sp
}

type typePos int

const (
	posField typePos = iota
	posElem
	posKey
	posMapVal
)

func genType(t *rapid.T, c GenCfg, nest, ann int, pos typePos) *TypeSpec {
	if pos == posKey {
		// bool,i8,i16,i32,i64,double,string,enum,*struct
		k := rapid.IntRange(0, 9).Draw(t, "keykind")
		if k == 8 && (nest < c.maxNest() || len(c.NamedRefs) > 0) {
			ts := genStructRef(t, c, nest, true)
			if ts.Struct != nil && ZeroSize(ts.Struct) {
				// pointers to zero-size variables need not be distinct in Go, so such keys
				// cannot keep their multiplicity: give the key struct some substance
				ts.Struct.Fields = append(ts.Struct.Fields, &FieldSpec{ID: 30000, Name: "KeyPad_30000", Type: &TypeSpec{Kind: KI32}})
			}
			return ts
		}
		if k >= 8 {
			k = 6 // string
		}
		return scalarType(t, c, scalarKinds[k])
	}
	// weights tilted to containers
	w := rapid.IntRange(0, 99).Draw(t, "kind")
	switch {
	case w < 40:
		k := scalarKinds[rapid.IntRange(0, len(scalarKinds)-1).Draw(t, "scalar")]
		return scalarType(t, c, k)
	case w < 48:
		ts := &TypeSpec{Kind: KBinary}
		if !c.NoTypedefs && pos == posField && rapid.IntRange(0, 19).Draw(t, "tdef") == 0 {
			ts.Named = "TBin"
		}
		if c.NoBinaryMapVal && pos == posMapVal {
			ts = &TypeSpec{Kind: KString}
		}
		return ts
	case w < 66:
		if ann >= c.maxAnn() {
			return scalarType(t, c, KI32)
		}
		k := KList
		if rapid.IntRange(0, 2).Draw(t, "set") == 0 {
			k = KSet
		}
		return &TypeSpec{Kind: k, Elem: genType(t, c, nest, ann+1, posElem)}
	case w < 84:
		if ann >= c.maxAnn() {
			return scalarType(t, c, KString)
		}
		return &TypeSpec{Kind: KMap, Key: genType(t, c, nest, ann+1, posKey), Elem: genType(t, c, nest, ann+1, posMapVal)}
	default:
		if nest >= c.maxNest() {
			if len(c.NamedRefs) > 0 {
				return genStructRef(t, c, nest, false)
			}
			return scalarType(t, c, KI64)
		}
		return genStructRef(t, c, nest, false)
	}
}

func genStructRef(t *rapid.T, c GenCfg, nest int, forcePtr bool) *TypeSpec {
	ts := &TypeSpec{Kind: KStruct}
	if len(c.NamedRefs) > 0 && (nest >= c.maxNest() || rapid.IntRange(0, 2).Draw(t, "named") == 0) {
		ts.Ref = rapid.SampledFrom(c.NamedRefs).Draw(t, "ref")
	} else {
		ts.Struct = genStruct(t, c, nest+1, "")
	}
	ts.Ptr = true
	if !forcePtr && !c.NoByValue && rapid.IntRange(0, 9).Draw(t, "byvalue") < 3 {
		ts.Ptr = false
		if ts.Ref != "" {
			ts.Ptr = true // by-value named types could be infinitely recursive; keep pointers
		}
	}
	return ts
}

func scalarType(t *rapid.T, c GenCfg, k Kind) *TypeSpec {
	ts := &TypeSpec{Kind: k}
	if k == KEnum {
		// TI64 is the same Go type the i64 typedef uses: only the annotation makes it an enum
		ts.Named = rapid.SampledFrom([]string{"E1", "E2", "E3", "E4", "TI64"}).Draw(t, "enum")
		return ts
	}
	if c.NoTypedefs {
		return ts
	}
	r := rapid.IntRange(0, 39).Draw(t, "typedef")
	if r == 0 {
		ts.Named = TypedefFor(k)
		if k == KI64 && rapid.Bool().Draw(t, "enumtypeasi64") {
			ts.Named = "E1" // an enum Go type annotated "i64" is a plain i64
		}
	} else if r == 1 && k == KI64 {
		ts.GoInt = true
	}
	return ts
}

// ---------------------------------------------------------------------------
// values

// Interesting scalar values.
var (
	i64Bounds = []int64{0, 1, -1, 2, 127, 128, -128, -129, 255, 256, 32767, 32768, -32768, -32769, 65535, 65536,
		math.MaxInt32, math.MinInt32, math.MaxInt32 + 1, math.MinInt32 - 1, math.MaxInt64, math.MinInt64,
		0x7f7f7f7f7f7f7f7f, -0x7f7f7f7f7f7f7f80, 0x0102030405060708, 0x00ff00ff00ff00ff}
	f64Bounds = []uint64{0, 0x8000000000000000, // +0 -0
		0x7ff0000000000000, 0xfff0000000000000, // +-Inf
		0x7ff8000000000000, 0x7ff8000000000001, 0xfff8000000000000, 0x7ff0000000000001, 0xffffffffffffffff, // NaNs
		0x0000000000000001, 0x800fffffffffffff, // denormals
		0x3ff0000000000000, 0xbff0000000000000, 0x7fefffffffffffff, 0x0010000000000000, 0x0102030405060708}
	strLens = []int{0, 0, 1, 1, 2, 3, 7, 8, 9, 15, 16, 17, 31, 32, 33, 255, 256, 257, 2040, 2047, 2048, 2049, 2056, 4096}
)

type valGen struct {
	t      *rapid.T
	c      GenCfg
	budget int
	huge   int // large leaves still allowed in this value
}

// HugeDrawn counts the large leaves generated in this process (evidence).
var HugeDrawn = map[string]int{}

var (
	hugeStrLens = []int{65535, 65536, 65537, 100000, 262144, 1 << 20}
	hugeCounts  = []int{1000, 4095, 4096, 4097, 32768, 65535, 65536, 70000}
)

// hugeElemOK: element kinds a huge container may hold (derivable from an index).
func hugeElemOK(t *TypeSpec) bool {
	switch t.Kind {
	case KBool, KI8, KI16, KI32, KI64, KEnum, KDouble, KString, KBinary:
		return true
	}
	return false
}

// derived returns the i-th element of a huge container; distinct i give distinct values for
// every kind wide enough (callers cap the count for bool/i8/i16 keys).
func derived(t *TypeSpec, seed uint64, i int) Val {
	x := (uint64(i) + seed) * 0x9E3779B97F4A7C15
	switch t.Kind {
	case KBool:
		return Val{B: (uint64(i)+seed)%2 == 1}
	case KI8:
		return Val{I: int64(int8(uint64(i) + seed))}
	case KI16:
		return Val{I: int64(int16(uint64(i) + seed))}
	case KI32, KEnum:
		return Val{I: int64(int32(uint32(uint64(i)+seed) * 2654435761))}
	case KI64:
		return Val{I: int64(x)}
	case KDouble:
		return Val{F: math.Float64bits(float64(int64(uint64(i)+seed%1000)) * 0.5)}
	case KString, KBinary:
		return Val{S: []byte(fmt.Sprintf("%x", x)[:1+int((uint64(i)+seed)%9)] + "_" + fmt.Sprint(i))}
	}
	panic("derived: bad kind")
}

func hugeKeyCap(t *TypeSpec) int {
	switch t.Kind {
	case KBool:
		return 2
	case KI8:
		return 256
	case KI16:
		return 65536
	}
	return 1 << 30
}

// GenStructVal draws a value of spec s.
func GenStructVal(t *rapid.T, c GenCfg, s *StructSpec) *SVal {
	g := &valGen{t: t, c: c, budget: c.MaxBytes}
	if g.budget == 0 {
		g.budget = 16 << 10
	}
	if c.Huge && rapid.IntRange(0, 1<<20).Draw(t, "hugevalue")%29 == 28 {
		g.huge = 1
	}
	return g.structVal(s, 0)
}

func (g *valGen) structVal(s *StructSpec, depth int) *SVal {
	sv := &SVal{F: make(map[uint16]Val, len(s.Fields)), UnkNil: true}
	for _, f := range s.Fields {
		sv.F[f.ID] = g.fieldVal(f, depth)
	}
	if s.Holder && g.c.HolderBytes && rapid.IntRange(0, 2).Draw(g.t, "holderbytes") == 0 {
		sv.Unk = GenUnknownFields(g.t, s, &g.budget)
		sv.UnkNil = false
	}
	return sv
}

// unknownFieldTypes are the shapes of retained unknown fields.
var unknownFieldTypes = []*TypeSpec{
	{Kind: KBool}, {Kind: KI8}, {Kind: KI16}, {Kind: KI32}, {Kind: KI64}, {Kind: KDouble}, {Kind: KString},
	{Kind: KList, Elem: &TypeSpec{Kind: KI32}},
	{Kind: KSet, Elem: &TypeSpec{Kind: KString}},
	{Kind: KMap, Key: &TypeSpec{Kind: KString}, Elem: &TypeSpec{Kind: KI64}},
	{Kind: KStruct, Struct: &StructSpec{Fields: []*FieldSpec{{Name: "U1", ID: 1, Type: &TypeSpec{Kind: KI32}}, {Name: "U2", ID: 2, Type: &TypeSpec{Kind: KList, Elem: &TypeSpec{Kind: KStruct, Struct: &StructSpec{Fields: []*FieldSpec{{Name: "V1", ID: 1, Type: &TypeSpec{Kind: KString}}}}}}}}}},
	{Kind: KList, Elem: &TypeSpec{Kind: KMap, Key: &TypeSpec{Kind: KI8}, Elem: &TypeSpec{Kind: KList, Elem: &TypeSpec{Kind: KDouble}}}},
}

// GenUnknownFields draws well-formed bytes of 1..3 fields that struct s does not
// recognise: unknown ids, or ids of s carrying another wire type.
func GenUnknownFields(t *rapid.T, s *StructSpec, budget *int) []byte {
	n := rapid.IntRange(1, 3).Draw(t, "nunk")
	var out []byte
	g := &valGen{t: t, c: GenCfg{ContainerMax: 5, NoNil: true}, budget: 300}
	for i := 0; i < n; i++ {
		ut := unknownFieldTypes[rapid.IntRange(0, len(unknownFieldTypes)-1).Draw(t, "unktype")]
		var id uint16
		if len(s.Fields) > 0 && rapid.IntRange(0, 3).Draw(t, "unkclash") == 0 {
			f := s.Fields[rapid.IntRange(0, len(s.Fields)-1).Draw(t, "unkfield")]
			id = f.ID
			if f.Type.WT() == ut.WT() {
				if ut.WT() == WI64 {
					ut = unknownFieldTypes[6]
				} else {
					ut = unknownFieldTypes[4]
				}
				if f.Type.WT() == ut.WT() {
					continue
				}
			}
		} else {
			id = uint16(rapid.IntRange(0, 65535).Draw(t, "unkid"))
			for s.ByID(id) != nil {
				id++
			}
		}
		out = append(out, ut.WT(), byte(id>>8), byte(id))
		out = appendValRef(out, ut, g.val(ut, 0), EncOpts{})
	}
	if budget != nil {
		*budget -= len(out)
	}
	return out
}

func (g *valGen) fieldVal(f *FieldSpec, depth int) Val {
	if f.GoPtr {
		if rapid.IntRange(0, 3).Draw(g.t, "nilptr") == 0 {
			return Val{Nil: true}
		}
	}
	return g.val(f.Type, depth)
}

func (g *valGen) intIn(bits uint) int64 {
	t := g.t
	var v int64
	if rapid.IntRange(0, 9).Draw(t, "ibound") < 4 {
		v = rapid.SampledFrom(i64Bounds).Draw(t, "ib")
	} else {
		v = rapid.Int64().Draw(t, "iv")
	}
	switch bits {
	case 8:
		return int64(int8(v))
	case 16:
		return int64(int16(v))
	case 32:
		return int64(int32(v))
	}
	return v
}

func (g *valGen) bytes() []byte {
	t := g.t
	var n int
	if g.huge > 0 && rapid.IntRange(0, 2).Draw(t, "hugestr") == 0 {
		g.huge--
		n = rapid.SampledFrom(hugeStrLens).Draw(t, "hugelen")
		HugeDrawn["huge-string"]++
		seed := rapid.Byte().Draw(t, "sfill")
		b := make([]byte, n)
		for i := range b {
			b[i] = seed + byte(i*7) + byte(i>>8)
		}
		return b
	}
	switch m := rapid.IntRange(0, 9).Draw(t, "slenmode"); {
	case m < 3:
		n = rapid.SampledFrom(strLens).Draw(t, "slenb")
	case m < 9:
		n = rapid.IntRange(0, 24).Draw(t, "slen")
	default:
		n = rapid.IntRange(0, 600).Draw(t, "slenl")
	}
	if n > g.budget {
		n = g.budget
		if n < 0 {
			n = 0
		}
	}
	g.budget -= n + 4
	if n > 64 {
		// long strings: a drawn seed byte and a cheap pattern (keeps shrinking fast)
		seed := rapid.Byte().Draw(t, "sfill")
		b := make([]byte, n)
		for i := range b {
			b[i] = seed + byte(i*7)
		}
		return b
	}
	return rapid.SliceOfN(rapid.Byte(), n, n).Draw(t, "sbytes")
}

func (g *valGen) count() int {
	t := g.t
	if g.budget <= 0 {
		return 0
	}
	if len(g.c.CountChoices) > 0 {
		return rapid.SampledFrom(g.c.CountChoices).Draw(t, "cntc")
	}
	max := g.c.ContainerMax
	if max == 0 {
		max = 40
	}
	var n int
	switch m := rapid.IntRange(0, 19).Draw(t, "cntmode"); {
	case m < 3:
		n = 0
	case m < 12:
		n = rapid.IntRange(1, 4).Draw(t, "cnt")
	case m < 16:
		// bucket boundaries and the sizes at which a Go map built by inserts is mid-growth (6.5*2^B + 1..)
		n = rapid.SampledFrom([]int{2, 8, 9, 16, 17, 27, 29, 31, 32, 33, 53, 55}).Draw(t, "cntb")
	case m < 19:
		n = rapid.IntRange(0, max).Draw(t, "cntu")
	default:
		n = rapid.SampledFrom([]int{100, 105, 111, 130, 209, 255, 256, 257, 300}).Draw(t, "cntl")
	}
	if n > max && max < 50 {
		n = max
	}
	return n
}

func (g *valGen) val(ts *TypeSpec, depth int) Val {
	t := g.t
	switch ts.Kind {
	case KBool:
		g.budget--
		return Val{B: rapid.Bool().Draw(t, "b")}
	case KI8:
		g.budget--
		return Val{I: g.intIn(8)}
	case KI16:
		g.budget -= 2
		return Val{I: g.intIn(16)}
	case KI32, KEnum:
		g.budget -= 4
		if ts.Kind == KEnum && g.c.WideEnums && rapid.IntRange(0, 5).Draw(t, "wideenum") == 0 {
			// a Go enum variable is an int64: values beyond 32 bits exist (the wire carries the low 32 bits)
			return Val{I: rapid.SampledFrom([]int64{1 << 32, 1<<32 + 5, -(1 << 32) - 1, 1 << 31, -(1 << 31) - 1, math.MaxInt64, math.MinInt64, 0x7fffffff00000001}).Draw(t, "wideenumv")}
		}
		return Val{I: g.intIn(32)}
	case KI64:
		g.budget -= 8
		return Val{I: g.intIn(64)}
	case KDouble:
		g.budget -= 8
		if rapid.IntRange(0, 9).Draw(t, "fbound") < 4 {
			return Val{F: rapid.SampledFrom(f64Bounds).Draw(t, "fb")}
		}
		return Val{F: rapid.Uint64().Draw(t, "fv")}
	case KString:
		return Val{S: g.bytes()}
	case KBinary:
		if !g.c.NoNil && rapid.IntRange(0, 5).Draw(t, "nilbin") == 0 {
			return Val{Nil: true}
		}
		return Val{S: g.bytes()}
	case KList, KSet:
		if !g.c.NoNil && rapid.IntRange(0, 7).Draw(t, "nillist") == 0 {
			return Val{Nil: true}
		}
		if g.huge > 0 && hugeElemOK(ts.Elem) && rapid.IntRange(0, 2).Draw(t, "hugelist") == 0 {
			g.huge--
			n := rapid.SampledFrom(hugeCounts).Draw(t, "hugecount")
			HugeDrawn["huge-list"]++
			seed := rapid.Uint64().Draw(t, "hugeseed")
			out := Val{L: make([]Val, n)}
			for i := range out.L {
				out.L[i] = derived(ts.Elem, seed, i)
			}
			return out
		}
		n := g.count()
		if depth > 40 {
			n = 0 // recursion through containers of structs held by value ends here (C01: within the depth bound)
		}
		out := Val{L: make([]Val, 0, n)}
		for i := 0; i < n && g.budget > 0; i++ {
			out.L = append(out.L, g.val(ts.Elem, depth+1))
		}
		g.budget -= 5
		return out
	case KMap:
		if !g.c.NoNil && rapid.IntRange(0, 7).Draw(t, "nilmap") == 0 {
			return Val{Nil: true}
		}
		if g.huge > 0 && hugeElemOK(ts.Key) && hugeElemOK(ts.Elem) && rapid.IntRange(0, 2).Draw(t, "hugemap") == 0 {
			g.huge--
			n := rapid.SampledFrom(hugeCounts).Draw(t, "hugecount")
			if c := hugeKeyCap(ts.Key); n > c {
				n = c
			}
			HugeDrawn["huge-map"]++
			seed := rapid.Uint64().Draw(t, "hugeseed")
			out := Val{M: make([]KV, n)}
			for i := range out.M {
				out.M[i] = KV{derived(ts.Key, seed, i), derived(ts.Elem, seed+1, i)}
			}
			return out
		}
		n := g.count()
		if depth > 40 {
			n = 0
		}
		out := Val{M: make([]KV, 0, n)}
		nilKey := false
		// keys that repeat are drawn again: the map has n entries whenever the key type has that many
		// values (sizes matter: a Go map is mid-growth only at particular lengths)
		for tries := 0; len(out.M) < n && tries < 3*n+8 && g.budget > 0; tries++ {
			k := g.val(ts.Key, depth+1)
			if ts.Key.Kind == KStruct && k.Nil {
				if nilKey {
					continue
				}
				nilKey = true
			}
			if findKey(ts.Key, out.M, k) >= 0 {
				continue // keep Go-level keys distinct
			}
			out.M = append(out.M, KV{k, g.val(ts.Elem, depth+1)})
		}
		g.budget -= 6
		return out
	case KStruct:
		if ts.Ptr {
			if ts.Ref != "" {
				// recursive named types: nil more often the deeper we are, so generation terminates
				if g.budget <= 0 || depth > 40 || rapid.IntRange(0, depth+2).Draw(t, "nilrec") >= 2 {
					return Val{Nil: true}
				}
			} else if !g.c.NoNil && rapid.IntRange(0, 7).Draw(t, "nilstruct") == 0 {
				return Val{Nil: true}
			}
		}
		g.budget--
		return Val{St: g.structVal(ts.SS(), depth+1)}
	}
	panic("bad kind")
}

// ZeroSize reports whether the Go struct for s occupies no memory.
func ZeroSize(s *StructSpec) bool {
	if s.Holder || len(s.Extras) > 0 {
		return false
	}
	for _, f := range s.Fields {
		if f.GoPtr || f.Type.Kind != KStruct || f.Type.Ptr || f.Type.Ref != "" || !ZeroSize(f.Type.Struct) {
			return false
		}
	}
	return true
}

// GenNamedUniverse draws n named struct specs "<prefix>000".. that reference each other
// (pointers in any direction, by value only towards lower indexes, so layouts stay
// finite). About half declare defaults.
func GenNamedUniverse(t *rapid.T, prefix string, n int) []*StructSpec {
	names := make([]string, n)
	for i := range names {
		names[i] = fmt.Sprintf("%s%03d", prefix, i)
	}
	var out []*StructSpec
	for i := 0; i < n; i++ {
		// references stay inside small clusters of four consecutive types: many independent
		// (possibly cyclic) clusters instead of one giant component, so that each cluster can be
		// first-used on its own (C08 releases goroutines onto one whole cluster at a time)
		lo := i / 4 * 4
		hi := lo + 4
		if hi > n {
			hi = n
		}
		c := GenCfg{MaxFields: 9, MaxNest: 0, Holder: true, Extras: true, BigIDs: i%7 == 3, Spellings: true,
			NamedRefs: names[lo:hi], NoCopy: i%5 == 4}
		c.maxNestZero = true
		s := genStruct(t, c, 0, "")
		s.Name = names[i]
		if hi-lo > 1 {
			// a ring through the cluster guarantees mutual nesting (every member reaches every other);
			// the ring field sits at a random position among the others, in a random container form
			next := names[lo+(i-lo+1)%(hi-lo)]
			rt := &TypeSpec{Kind: KStruct, Ref: next, Ptr: true}
			switch rapid.IntRange(0, 4).Draw(t, "ringform") {
			case 1:
				rt = &TypeSpec{Kind: KList, Elem: rt}
			case 2:
				rt = &TypeSpec{Kind: KMap, Key: &TypeSpec{Kind: KString}, Elem: rt}
			case 3:
				rt = &TypeSpec{Kind: KSet, Elem: rt}
			}
			rid := uint16(200)
			for s.ByID(rid) != nil {
				rid++
			}
			rf := &FieldSpec{ID: rid, Name: fmt.Sprintf("Ring_%d", rid), Req: Optional, Type: rt}
			pos := rapid.IntRange(0, len(s.Fields)).Draw(t, "ringpos")
			s.Fields = append(s.Fields, nil)
			copy(s.Fields[pos+1:], s.Fields[pos:])
			s.Fields[pos] = rf
		}
		if ZeroSize(s) {
			// named types can end up as map keys (by pointer): keep them non-zero-size
			s.Fields = append(s.Fields, &FieldSpec{ID: 30000, Name: "Pad_30000", Type: &TypeSpec{Kind: KI32}})
		}
		for _, f := range s.Fields {
			f.Name = fmt.Sprintf("%s_%s", f.Name, s.Name) // distinctive: error messages must name the right field
		}
		// by-value references only to earlier types
		var fix func(ts *TypeSpec, key bool)
		fix = func(ts *TypeSpec, key bool) {
			switch ts.Kind {
			case KList, KSet:
				fix(ts.Elem, false)
			case KMap:
				fix(ts.Key, true)
				fix(ts.Elem, false)
			case KStruct:
				if ts.Ref != "" && !key && ts.Ref < s.Name && rapid.IntRange(0, 9).Draw(t, "byvalref") < 3 {
					ts.Ptr = false
				}
			}
		}
		for _, f := range s.Fields {
			fix(f.Type, false)
		}
		if rapid.Bool().Draw(t, "hasinit") {
			s.HasInit = true
			s.InitWhole = rapid.Bool().Draw(t, "initwhole")
			s.Defaults = map[uint16]Val{}
			g := &valGen{t: t, c: c, budget: 200}
			for _, f := range s.Fields {
				if f.GoPtr {
					continue
				}
				switch f.Type.Kind {
				case KBool, KI8, KI16, KI32, KI64, KDouble, KString, KEnum, KBinary:
					if rapid.IntRange(0, 2).Draw(t, "hasdef") > 0 {
						d := g.val(f.Type, 0)
						if f.Type.Kind == KBinary && d.Nil {
							continue
						}
						s.Defaults[f.ID] = d
					}
				}
			}
		}
		out = append(out, s)
	}
	return out
}

// cloneType deep-copies the container/leaf nodes of a type (struct specs are shared).
func cloneType(ts *TypeSpec) *TypeSpec {
	if ts == nil {
		return nil
	}
	o := *ts
	o.Elem = cloneType(ts.Elem)
	o.Key = cloneType(ts.Key)
	return &o
}
