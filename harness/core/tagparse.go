package core

import (
	"fmt"
	"reflect"
	"strconv"
	"strings"
)

// The reference model's own tag parser: re-derives (id, requiredness, schema signature,
// nocopy) from a rendered struct tag and the Go type, independently of RenderTag, so a
// rendering mistake in the harness cannot silently change what a case means.

// ParsedTag is the schema of one field as written in its tag.
type ParsedTag struct {
	ID     uint16
	Req    Req
	Sig    string // normalised annotation ("" when derived from the Go type)
	NoCopy bool
}

// ParseFieldTag parses the tag the way the documentation describes it: the frugal tag
// wins over the thrift tag; the thrift tag's first segment is the field name.
func ParseFieldTag(tag reflect.StructTag, gt reflect.Type) (ParsedTag, error) {
	var parts []string
	if s, ok := tag.Lookup("frugal"); ok {
		parts = strings.Split(s, ",")
	} else if s, ok := tag.Lookup("thrift"); ok {
		parts = strings.Split(s, ",")[1:]
	} else {
		return ParsedTag{}, fmt.Errorf("no tag")
	}
	for i := range parts {
		parts[i] = strings.TrimSpace(parts[i])
	}
	var out ParsedTag
	if len(parts) == 0 {
		return out, fmt.Errorf("empty tag")
	}
	id, err := strconv.ParseUint(parts[0], 10, 16)
	if err != nil {
		return out, err
	}
	out.ID = uint16(id)
	parts = parts[1:]
	if len(parts) > 0 {
		switch parts[0] {
		case "default":
			out.Req = Default
		case "required":
			out.Req = Required
		case "optional":
			out.Req = Optional
		default:
			return out, fmt.Errorf("bad requiredness %q", parts[0])
		}
		parts = parts[1:]
	}
	ann := ""
	if len(parts) > 0 {
		ann = parts[0]
		parts = parts[1:]
	}
	for gt.Kind() == reflect.Ptr {
		gt = gt.Elem()
	}
	if ann != "" {
		toks := tokenize(ann)
		pos := 0
		sig, err := annSig(toks, &pos, gt)
		if err != nil {
			return out, err
		}
		if pos != len(toks) {
			return out, fmt.Errorf("trailing tokens in %q", ann)
		}
		out.Sig = sig
	} else {
		out.Sig = goSig(gt)
	}
	for _, o := range parts {
		if o == "nocopy" {
			out.NoCopy = true
		} else {
			return out, fmt.Errorf("bad option %q", o)
		}
	}
	return out, nil
}

func tokenize(s string) []string {
	var toks []string
	i := 0
	for i < len(s) {
		c := s[i]
		switch {
		case c == ' ' || c == '\t':
			i++
		case c == '<' || c == '>' || c == ':' || c == '.':
			toks = append(toks, string(c))
			i++
		default:
			j := i
			for j < len(s) && (s[j] == '_' || s[j] >= '0' && s[j] <= '9' || s[j] >= 'a' && s[j] <= 'z' || s[j] >= 'A' && s[j] <= 'Z') {
				j++
			}
			if j == i {
				j = i + 1
			}
			toks = append(toks, s[i:j])
			i = j
		}
	}
	return toks
}

func annSig(toks []string, pos *int, gt reflect.Type) (string, error) {
	if *pos >= len(toks) {
		return "", fmt.Errorf("unexpected end of annotation")
	}
	for gt.Kind() == reflect.Ptr {
		gt = gt.Elem()
	}
	tok := toks[*pos]
	*pos++
	expect := func(s string) error {
		if *pos >= len(toks) || toks[*pos] != s {
			return fmt.Errorf("%q expected", s)
		}
		*pos++
		return nil
	}
	switch tok {
	case "bool", "i8", "i16", "i32", "i64", "double", "string", "binary":
		return tok, nil
	case "byte":
		return "i8", nil
	case "list", "set":
		if err := expect("<"); err != nil {
			return "", err
		}
		if gt.Kind() != reflect.Slice {
			return "", fmt.Errorf("%s on non-slice", tok)
		}
		e, err := annSig(toks, pos, gt.Elem())
		if err != nil {
			return "", err
		}
		return tok + "<" + e + ">", expect(">")
	case "map":
		if err := expect("<"); err != nil {
			return "", err
		}
		if gt.Kind() != reflect.Map {
			return "", fmt.Errorf("map on non-map")
		}
		k, err := annSig(toks, pos, gt.Key())
		if err != nil {
			return "", err
		}
		if err := expect(":"); err != nil {
			return "", err
		}
		v, err := annSig(toks, pos, gt.Elem())
		if err != nil {
			return "", err
		}
		return "map<" + k + ":" + v + ">", expect(">")
	}
	// a type name, possibly package-qualified: struct or enum
	name := tok
	if *pos+1 < len(toks) && toks[*pos] == "." && (gt.Name() != "" || gt.Kind() == reflect.Struct) {
		name = toks[*pos+1]
		*pos += 2
	}
	switch gt.Kind() {
	case reflect.Struct:
		return "struct", nil
	case reflect.Int64, reflect.Int:
		if name == gt.Name() {
			return "enum", nil
		}
	}
	return "", fmt.Errorf("unknown type name %q", name)
}

func goSig(gt reflect.Type) string {
	for gt.Kind() == reflect.Ptr {
		gt = gt.Elem()
	}
	switch gt.Kind() {
	case reflect.Bool:
		return "bool"
	case reflect.Int8:
		return "i8"
	case reflect.Int16:
		return "i16"
	case reflect.Int32:
		return "i32"
	case reflect.Int64, reflect.Int:
		return "i64"
	case reflect.Float64:
		return "double"
	case reflect.String:
		return "string"
	case reflect.Slice:
		if gt.Elem().Kind() == reflect.Uint8 {
			return "binary"
		}
		return "?slice"
	case reflect.Map:
		return "map<" + goSig(gt.Key()) + ":" + goSig(gt.Elem()) + ">"
	case reflect.Struct:
		return "struct"
	}
	return "?"
}

// SchemaSig is the normalised signature of a TypeSpec in the same notation.
func SchemaSig(t *TypeSpec) string {
	switch t.Kind {
	case KList, KSet:
		return t.Kind.String() + "<" + SchemaSig(t.Elem) + ">"
	case KMap:
		return "map<" + SchemaSig(t.Key) + ":" + SchemaSig(t.Elem) + ">"
	}
	return t.Kind.String()
}

// CheckTags verifies, for every tagged field of the bound type, that the rendered tag
// means what the spec says.
func (b *Bound) CheckTags() error {
	for _, f := range b.Spec.Fields {
		sf := b.Type.Field(b.idx[f.ID])
		pt, err := ParseFieldTag(sf.Tag, sf.Type)
		if err != nil {
			return fmt.Errorf("field %s tag %q: %v", f.Name, sf.Tag, err)
		}
		if pt.ID != f.ID || pt.Req != f.Req || pt.NoCopy != f.NoCopy || pt.Sig != SchemaSig(f.Type) {
			return fmt.Errorf("field %s tag %q parses to %+v, spec says id=%d req=%s sig=%s nocopy=%v", f.Name, sf.Tag, pt, f.ID, f.Req, SchemaSig(f.Type), f.NoCopy)
		}
	}
	return nil
}
