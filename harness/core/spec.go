// Package core holds the data model shared by every check: the spec AST (types as
// data), values as data, the independent reference model of Thrift Binary, the
// pure-reflect binder that turns specs into Go types and values, and the rapid
// generators. Nothing in here imports frugal.
package core

import (
	"fmt"
	"sort"
	"strings"
)

// Kind is the Thrift-level kind of a TypeSpec.
type Kind uint8

const (
	KBool Kind = iota + 1
	KI8
	KI16
	KI32
	KI64
	KDouble
	KString
	KBinary
	KEnum
	KList
	KSet
	KMap
	KStruct
)

var kindNames = [...]string{"?", "bool", "i8", "i16", "i32", "i64", "double", "string", "binary", "enum", "list", "set", "map", "struct"}

func (k Kind) String() string { return kindNames[k] }

// Wire type codes of Thrift Binary.
const (
	WStop   = 0
	WBool   = 2
	WByte   = 3
	WDouble = 4
	WI16    = 6
	WI32    = 8
	WI64    = 10
	WString = 11
	WStruct = 12
	WMap    = 13
	WSet    = 14
	WList   = 15
)

// Req is the requiredness of a field.
type Req uint8

const (
	Default Req = iota
	Required
	Optional
)

func (r Req) String() string { return [...]string{"default", "required", "optional"}[r] }

// TypeSpec describes one type position.
type TypeSpec struct {
	Kind   Kind        `json:"k"`
	Elem   *TypeSpec   `json:"e,omitempty"`     // list/set element, map value
	Key    *TypeSpec   `json:"key,omitempty"`   // map key
	Struct *StructSpec `json:"st,omitempty"`    // inline anonymous struct
	Ref    string      `json:"ref,omitempty"`   // named struct (registry)
	Ptr    bool        `json:"ptr,omitempty"`   // struct held through a pointer
	GoInt  bool        `json:"goint,omitempty"` // i64 held in a Go `int`
	Named  string      `json:"named,omitempty"` // enum type name / typedef'd scalar name
}

// Spelling selects among equivalent ways of writing the tag of a field.
type Spelling struct {
	Carrier    uint8  `json:"c,omitempty"`  // 0 frugal, 1 thrift, 2 both (thrift contradicting)
	ThriftName string `json:"tn,omitempty"` // name segment of the thrift tag
	OmitReq    bool   `json:"or,omitempty"` // omit requiredness (only when default, no annotation)
	OmitAnn    bool   `json:"oa,omitempty"` // omit annotation where Go type fixes it
	ByteAlias  bool   `json:"ba,omitempty"` // "byte" instead of "i8"
	PkgQual    bool   `json:"pq,omitempty"` // pkg.Name for named structs/enums
	Spaces     uint8  `json:"sp,omitempty"` // bitmask of where spaces are inserted
	// Other: tags of other packages around the frugal/thrift tag (conventional struct tag syntax,
	// values may contain escaped quotes and backslashes): 0 none, 1..4 see otherTags
	Other uint8 `json:"ot,omitempty"`
}

// FieldSpec is one tagged field.
type FieldSpec struct {
	Name   string    `json:"n"`
	ID     uint16    `json:"id"`
	Req    Req       `json:"r,omitempty"`
	Type   *TypeSpec `json:"t"`
	GoPtr  bool      `json:"gp,omitempty"` // optional scalar/string held as *T
	NoCopy bool      `json:"nc,omitempty"`
	Sp     Spelling  `json:"sp,omitempty"`
}

// Extra is a field that must be ignored by the codec.
type Extra struct {
	Pos  int    `json:"pos"` // inserted before Fields[Pos] (Go declaration order)
	Kind uint8  `json:"k"`   // 0 untagged exported, 1 unexported with tag, 2 embedded with tag
	Name string `json:"n"`
}

// StructSpec is one struct type. Fields are in Go declaration order.
type StructSpec struct {
	Name      string         `json:"name,omitempty"` // "" = anonymous (reflect.StructOf)
	Fields    []*FieldSpec   `json:"f"`
	Holder    bool           `json:"h,omitempty"` // has _unknownFields []byte
	Extras    []Extra        `json:"x,omitempty"`
	HasInit   bool           `json:"init,omitempty"` // declares InitDefault()
	Defaults  map[uint16]Val `json:"def,omitempty"`  // values InitDefault assigns (others zero)
	InitWhole bool           `json:"iw,omitempty"`   // InitDefault body is `*p = T{...}` (resets everything)
}

// WT returns the wire type code.
func (t *TypeSpec) WT() byte {
	switch t.Kind {
	case KBool:
		return WBool
	case KI8:
		return WByte
	case KI16:
		return WI16
	case KI32, KEnum:
		return WI32
	case KI64:
		return WI64
	case KDouble:
		return WDouble
	case KString, KBinary:
		return WString
	case KList:
		return WList
	case KSet:
		return WSet
	case KMap:
		return WMap
	case KStruct:
		return WStruct
	}
	panic("bad kind")
}

// IsScalar: fixed-width kinds.
func (t *TypeSpec) IsScalar() bool {
	switch t.Kind {
	case KBool, KI8, KI16, KI32, KI64, KDouble, KEnum:
		return true
	}
	return false
}

// FixedWidth is the wire width of a scalar kind (0 otherwise).
func (t *TypeSpec) FixedWidth() int {
	switch t.Kind {
	case KBool, KI8:
		return 1
	case KI16:
		return 2
	case KI32, KEnum:
		return 4
	case KI64, KDouble:
		return 8
	}
	return 0
}

// registry of named structs (filled by the checks package for generated source).
var registry = map[string]*StructSpec{}

// RegisterSpec makes a named StructSpec resolvable through TypeSpec.Ref.
func RegisterSpec(s *StructSpec) { registry[s.Name] = s }

// LookupSpec returns a registered named spec.
func LookupSpec(name string) *StructSpec { return registry[name] }

// SS resolves the struct spec of a KStruct type.
func (t *TypeSpec) SS() *StructSpec {
	if t.Struct != nil {
		return t.Struct
	}
	s := registry[t.Ref]
	if s == nil {
		panic("unregistered struct ref " + t.Ref)
	}
	return s
}

// Sorted returns the fields in ascending id order.
func (s *StructSpec) Sorted() []*FieldSpec {
	ff := append([]*FieldSpec(nil), s.Fields...)
	sort.SliceStable(ff, func(i, j int) bool { return ff[i].ID < ff[j].ID })
	return ff
}

// ByID finds a field.
func (s *StructSpec) ByID(id uint16) *FieldSpec {
	for _, f := range s.Fields {
		if f.ID == id {
			return f
		}
	}
	return nil
}

// Sig is a compact textual signature of a type (used for hashing and labels).
func (t *TypeSpec) Sig() string {
	var sb strings.Builder
	t.sig(&sb, 0)
	return sb.String()
}

func (t *TypeSpec) sig(sb *strings.Builder, depth int) {
	switch t.Kind {
	case KList, KSet:
		sb.WriteString(t.Kind.String() + "<")
		t.Elem.sig(sb, depth)
		sb.WriteString(">")
	case KMap:
		sb.WriteString("map<")
		t.Key.sig(sb, depth)
		sb.WriteString(":")
		t.Elem.sig(sb, depth)
		sb.WriteString(">")
	case KStruct:
		if t.Ptr {
			sb.WriteString("*")
		}
		if t.Ref != "" {
			sb.WriteString(t.Ref)
		} else {
			t.Struct.sig(sb, depth+1)
		}
	case KEnum:
		sb.WriteString("enum")
	default:
		sb.WriteString(t.Kind.String())
		if t.GoInt {
			sb.WriteString("(int)")
		}
		if t.Named != "" {
			sb.WriteString("(" + t.Named + ")")
		}
	}
}

// Sig of a struct.
func (s *StructSpec) Sig() string {
	var sb strings.Builder
	s.sig(&sb, 0)
	return sb.String()
}

func (s *StructSpec) sig(sb *strings.Builder, depth int) {
	if s.Name != "" && depth > 0 {
		sb.WriteString(s.Name)
		return
	}
	sb.WriteString("{")
	if s.Name != "" {
		sb.WriteString(s.Name + " ")
	}
	for i, f := range s.Fields {
		if i > 0 {
			sb.WriteString(";")
		}
		fmt.Fprintf(sb, "%d", f.ID)
		switch f.Req {
		case Required:
			sb.WriteString("!")
		case Optional:
			sb.WriteString("?")
		}
		if f.GoPtr {
			sb.WriteString("*")
		}
		if f.NoCopy {
			sb.WriteString("~")
		}
		sb.WriteString(":")
		f.Type.sig(sb, depth)
	}
	if s.Holder {
		sb.WriteString(";_unk")
	}
	if s.HasInit {
		sb.WriteString(";init")
	}
	sb.WriteString("}")
}

// WalkTypes visits every TypeSpec reachable from s without following named refs twice.
func (s *StructSpec) WalkTypes(fn func(*TypeSpec)) {
	seen := map[*StructSpec]bool{}
	var ws func(*StructSpec)
	var wt func(*TypeSpec)
	wt = func(t *TypeSpec) {
		fn(t)
		switch t.Kind {
		case KList, KSet:
			wt(t.Elem)
		case KMap:
			wt(t.Key)
			wt(t.Elem)
		case KStruct:
			ws(t.SS())
		}
	}
	ws = func(s *StructSpec) {
		if seen[s] {
			return
		}
		seen[s] = true
		for _, f := range s.Fields {
			wt(f.Type)
		}
	}
	ws(s)
}

// AnyNoCopy reports whether s or a struct reachable from it declares a nocopy field.
func (s *StructSpec) AnyNoCopy() bool {
	nc := false
	chk := func(x *StructSpec) {
		for _, f := range x.Fields {
			if f.NoCopy {
				nc = true
			}
		}
	}
	chk(s)
	s.WalkTypes(func(t *TypeSpec) {
		if t.Kind == KStruct {
			chk(t.SS())
		}
	})
	return nc
}
