package core

import (
	"bytes"
	"encoding/binary"
	"errors"
	"fmt"
	"sort"
)

// WNode is a schema-less Thrift Binary value.
type WNode struct {
	T      byte     // wire type
	U      uint64   // scalar payload, zero-extended big-endian value
	S      []byte   // string payload (aliases the input)
	Fields []WField // struct
	ET     byte     // list/set element type
	KT, VT byte     // map key/value types
	Elems  []WNode  // list/set elements
	Keys   []WNode  // map keys
	Vals   []WNode  // map values
	Off    int      // offset of the first value byte
	End    int      // offset just past the value
}

// WField is one field occurrence.
type WField struct {
	ID  uint16
	T   byte
	V   WNode
	Off int // offset of the field header
	End int // offset just past the value
}

var validWT = [256]bool{WBool: true, WByte: true, WDouble: true, WI16: true, WI32: true, WI64: true,
	WString: true, WStruct: true, WMap: true, WSet: true, WList: true}

func wtWidth(t byte) int {
	switch t {
	case WBool, WByte:
		return 1
	case WI16:
		return 2
	case WI32:
		return 4
	case WI64, WDouble:
		return 8
	}
	return 0
}

// minimal encoded size of a value of wire type t
func wtMin(t byte) int {
	switch t {
	case WString:
		return 4
	case WStruct:
		return 1
	case WMap:
		return 6
	case WSet, WList:
		return 5
	}
	return wtWidth(t)
}

// Parse errors.
var (
	ErrTrunc    = errors.New("wire: truncated")
	ErrNegative = errors.New("wire: negative length")
	ErrBadType  = errors.New("wire: invalid type code")
	ErrTooDeep  = errors.New("wire: too deep")
	ErrCount    = errors.New("wire: count exceeds input")
)

// ParseStruct parses one struct starting at b[0], strictly. Returns the node and
// bytes consumed. maxDepth bounds nesting (levels below the top-level struct).
func ParseStruct(b []byte, maxDepth int) (WNode, int, error) {
	p := &wparser{b: b, max: maxDepth}
	n, err := p.structAt(0, 0)
	if err != nil {
		return WNode{}, 0, err
	}
	return n, n.End, nil
}

type wparser struct {
	b   []byte
	max int
	// MaxDepthSeen is the deepest level visited.
	deepest int
}

func (p *wparser) structAt(pos, depth int) (WNode, error) {
	if depth > p.max {
		return WNode{}, ErrTooDeep
	}
	if depth > p.deepest {
		p.deepest = depth
	}
	n := WNode{T: WStruct, Off: pos}
	for {
		if pos >= len(p.b) {
			return n, ErrTrunc
		}
		t := p.b[pos]
		if t == WStop {
			pos++
			break
		}
		if !validWT[t] {
			return n, ErrBadType
		}
		if pos+3 > len(p.b) {
			return n, ErrTrunc
		}
		id := binary.BigEndian.Uint16(p.b[pos+1:])
		v, err := p.valueAt(pos+3, t, depth+1)
		if err != nil {
			return n, err
		}
		n.Fields = append(n.Fields, WField{ID: id, T: t, V: v, Off: pos, End: v.End})
		pos = v.End
	}
	n.End = pos
	return n, nil
}

func (p *wparser) valueAt(pos int, t byte, depth int) (WNode, error) {
	n := WNode{T: t, Off: pos}
	if w := wtWidth(t); w > 0 {
		if pos+w > len(p.b) {
			return n, ErrTrunc
		}
		switch w {
		case 1:
			n.U = uint64(p.b[pos])
		case 2:
			n.U = uint64(binary.BigEndian.Uint16(p.b[pos:]))
		case 4:
			n.U = uint64(binary.BigEndian.Uint32(p.b[pos:]))
		case 8:
			n.U = binary.BigEndian.Uint64(p.b[pos:])
		}
		n.End = pos + w
		return n, nil
	}
	switch t {
	case WString:
		if pos+4 > len(p.b) {
			return n, ErrTrunc
		}
		l := int(int32(binary.BigEndian.Uint32(p.b[pos:])))
		if l < 0 {
			return n, ErrNegative
		}
		if l > len(p.b)-pos-4 {
			return n, ErrTrunc
		}
		n.S = p.b[pos+4 : pos+4+l]
		n.End = pos + 4 + l
		return n, nil
	case WStruct:
		return p.structAt(pos, depth)
	case WList, WSet:
		if depth > p.max {
			return n, ErrTooDeep
		}
		if depth > p.deepest {
			p.deepest = depth
		}
		if pos+5 > len(p.b) {
			return n, ErrTrunc
		}
		et := p.b[pos]
		l := int(int32(binary.BigEndian.Uint32(p.b[pos+1:])))
		if l < 0 {
			return n, ErrNegative
		}
		n.ET = et
		pos += 5
		if l == 0 {
			n.End = pos
			return n, nil // element type of an empty container is not inspected
		}
		if !validWT[et] {
			return n, ErrBadType
		}
		if l > (len(p.b)-pos)/wtMin(et) {
			return n, ErrCount
		}
		n.Elems = make([]WNode, 0, l)
		for i := 0; i < l; i++ {
			e, err := p.valueAt(pos, et, depth+1)
			if err != nil {
				return n, err
			}
			n.Elems = append(n.Elems, e)
			pos = e.End
		}
		n.End = pos
		return n, nil
	case WMap:
		if depth > p.max {
			return n, ErrTooDeep
		}
		if depth > p.deepest {
			p.deepest = depth
		}
		if pos+6 > len(p.b) {
			return n, ErrTrunc
		}
		kt, vt := p.b[pos], p.b[pos+1]
		l := int(int32(binary.BigEndian.Uint32(p.b[pos+2:])))
		if l < 0 {
			return n, ErrNegative
		}
		n.KT, n.VT = kt, vt
		pos += 6
		if l == 0 {
			n.End = pos
			return n, nil
		}
		if !validWT[kt] || !validWT[vt] {
			return n, ErrBadType
		}
		if l > (len(p.b)-pos)/(wtMin(kt)+wtMin(vt)) {
			return n, ErrCount
		}
		n.Keys = make([]WNode, 0, l)
		n.Vals = make([]WNode, 0, l)
		for i := 0; i < l; i++ {
			k, err := p.valueAt(pos, kt, depth+1)
			if err != nil {
				return n, err
			}
			v, err := p.valueAt(k.End, vt, depth+1)
			if err != nil {
				return n, err
			}
			n.Keys = append(n.Keys, k)
			n.Vals = append(n.Vals, v)
			pos = v.End
		}
		n.End = pos
		return n, nil
	}
	return n, ErrBadType
}

// Emit re-serialises a node. With canon, the entries of every map are sorted by
// their (canonical) entry bytes.
func (n *WNode) Emit(out []byte, canon bool) []byte {
	switch n.T {
	case WBool, WByte:
		return append(out, byte(n.U))
	case WI16:
		return append(out, byte(n.U>>8), byte(n.U))
	case WI32:
		return append(out, byte(n.U>>24), byte(n.U>>16), byte(n.U>>8), byte(n.U))
	case WI64, WDouble:
		return binary.BigEndian.AppendUint64(out, n.U)
	case WString:
		out = binary.BigEndian.AppendUint32(out, uint32(len(n.S)))
		return append(out, n.S...)
	case WStruct:
		for i := range n.Fields {
			f := &n.Fields[i]
			out = append(out, f.T, byte(f.ID>>8), byte(f.ID))
			out = f.V.Emit(out, canon)
		}
		return append(out, 0)
	case WList, WSet:
		out = append(out, n.ET)
		out = binary.BigEndian.AppendUint32(out, uint32(len(n.Elems)))
		for i := range n.Elems {
			out = n.Elems[i].Emit(out, canon)
		}
		return out
	case WMap:
		out = append(out, n.KT, n.VT)
		out = binary.BigEndian.AppendUint32(out, uint32(len(n.Keys)))
		if !canon {
			for i := range n.Keys {
				out = n.Keys[i].Emit(out, canon)
				out = n.Vals[i].Emit(out, canon)
			}
			return out
		}
		ents := make([][]byte, len(n.Keys))
		for i := range n.Keys {
			e := n.Keys[i].Emit(nil, true)
			ents[i] = n.Vals[i].Emit(e, true)
		}
		sort.Slice(ents, func(i, j int) bool { return bytes.Compare(ents[i], ents[j]) < 0 })
		for _, e := range ents {
			out = append(out, e...)
		}
		return out
	}
	panic(fmt.Sprintf("emit: bad wire type %d", n.T))
}

// Canon parses b as one struct (strictly, consuming all of b) and returns the
// canonical re-encoding (map entries sorted). "Equal up to map-entry order" is
// Canon(a) == Canon(b).
func Canon(b []byte) ([]byte, error) {
	n, used, err := ParseStruct(b, 1<<20)
	if err != nil {
		return nil, err
	}
	if used != len(b) {
		return nil, fmt.Errorf("wire: %d trailing bytes after top-level STOP", len(b)-used)
	}
	return n.Emit(nil, true), nil
}

// Depth returns the deepest nesting level of a parsed message.
func Depth(b []byte) (int, error) {
	p := &wparser{b: b, max: 1 << 30}
	_, err := p.structAt(0, 0)
	return p.deepest, err
}

// AnyBool reports whether pred holds for the byte of some bool value in the tree.
func (n *WNode) AnyBool(pred func(b byte) bool) bool {
	switch n.T {
	case WBool:
		return pred(byte(n.U))
	case WStruct:
		for i := range n.Fields {
			if n.Fields[i].V.AnyBool(pred) {
				return true
			}
		}
	case WList, WSet:
		for i := range n.Elems {
			if n.Elems[i].AnyBool(pred) {
				return true
			}
		}
	case WMap:
		for i := range n.Keys {
			if n.Keys[i].AnyBool(pred) || n.Vals[i].AnyBool(pred) {
				return true
			}
		}
	}
	return false
}
