package core

import (
	"bytes"
	"fmt"
	"sort"
	"strings"
)

// Val is a Go-level value as data. Which payload is meaningful is decided by the
// TypeSpec it is read against:
//
//	bool                      B
//	i8..i64, enum             I
//	double                    F (raw bits)
//	string, binary            S (+Nil for a nil []byte)
//	optional pointer scalar   Nil or the payload above
//	list, set                 Nil or L
//	map                       Nil or M (ordered as generated; compared as a multiset)
//	struct                    Nil (nil *struct) or St
type Val struct {
	Nil bool   `json:"nil,omitempty"`
	B   bool   `json:"b,omitempty"`
	I   int64  `json:"i,omitempty"`
	F   uint64 `json:"f,omitempty"`
	S   []byte `json:"s,omitempty"`
	L   []Val  `json:"l,omitempty"`
	M   []KV   `json:"m,omitempty"`
	St  *SVal  `json:"st,omitempty"`
}

// KV is one map entry.
type KV struct {
	K Val `json:"k"`
	V Val `json:"v"`
}

// SVal is a struct value: every field of the spec by id, plus holder bytes.
type SVal struct {
	F      map[uint16]Val `json:"f,omitempty"`
	Unk    []byte         `json:"unk,omitempty"`
	UnkNil bool           `json:"unknil,omitempty"` // holder slice is nil (vs empty non-nil); informational
}

// ZeroVal is the Go zero value of a field (as FieldSpec because pointer-ness of
// scalars lives on the field).
func ZeroField(f *FieldSpec) Val {
	if f.GoPtr {
		return Val{Nil: true}
	}
	return ZeroType(f.Type)
}

// ZeroType is the Go zero value at a type position.
func ZeroType(t *TypeSpec) Val {
	switch t.Kind {
	case KBinary, KList, KSet, KMap:
		return Val{Nil: true}
	case KStruct:
		if t.Ptr {
			return Val{Nil: true}
		}
		return Val{St: ZeroStruct(t.SS())}
	}
	return Val{}
}

// ZeroStruct is the zero value of a struct.
func ZeroStruct(s *StructSpec) *SVal {
	sv := &SVal{F: map[uint16]Val{}, UnkNil: true}
	for _, f := range s.Fields {
		sv.F[f.ID] = ZeroField(f)
	}
	return sv
}

// FreshStruct is what a decoder-created struct starts as: zero, then declared defaults.
func FreshStruct(s *StructSpec) *SVal {
	sv := ZeroStruct(s)
	ApplyInit(s, sv)
	return sv
}

// ApplyInit mirrors the generated InitDefault body.
func ApplyInit(s *StructSpec, sv *SVal) {
	if !s.HasInit {
		return
	}
	if s.InitWhole {
		z := ZeroStruct(s)
		sv.F = z.F
		sv.Unk = nil
		sv.UnkNil = true
	}
	for id, d := range s.Defaults {
		sv.F[id] = d.Clone()
	}
}

// Clone deep-copies.
func (v Val) Clone() Val {
	o := v
	if v.S != nil {
		o.S = append([]byte{}, v.S...)
	}
	if v.L != nil {
		o.L = make([]Val, len(v.L))
		for i := range v.L {
			o.L[i] = v.L[i].Clone()
		}
	}
	if v.M != nil {
		o.M = make([]KV, len(v.M))
		for i := range v.M {
			o.M[i] = KV{v.M[i].K.Clone(), v.M[i].V.Clone()}
		}
	}
	if v.St != nil {
		o.St = v.St.Clone()
	}
	return o
}

// Clone deep-copies.
func (s *SVal) Clone() *SVal {
	if s == nil {
		return nil
	}
	o := &SVal{F: make(map[uint16]Val, len(s.F)), UnkNil: s.UnkNil}
	for k, v := range s.F {
		o.F[k] = v.Clone()
	}
	if s.Unk != nil {
		o.Unk = append([]byte{}, s.Unk...)
	}
	return o
}

// Mismatch describes where two values differ.
type Mismatch struct {
	Path string
	A, B string
}

func (m *Mismatch) String() string {
	if m == nil {
		return "<equal>"
	}
	return fmt.Sprintf("at %s: %s != %s", m.Path, m.A, m.B)
}

// EqOpts loosens comparison where a property leaves the outcome open.
type EqOpts struct {
	IgnoreHolder bool // do not compare holder bytes
	// HolderNilEq: nil and empty holder are the same (always true: only bytes are compared)
	NilEmptySame bool // nil and empty container/binary compare equal
	// NilStructFresh: a nil struct pointer compares equal to a decoder-created struct
	// without transmitted fields (what a nil non-optional struct becomes after one trip)
	NilStructFresh bool
	// SkipNoCopy: fields declared nocopy are not compared (their bytes are views of an input
	// buffer that the caller has overwritten since)
	SkipNoCopy bool
}

// EqualField compares two field values under the field's spec.
func EqualField(f *FieldSpec, a, b Val, o EqOpts, path string) *Mismatch {
	if f.NoCopy && o.SkipNoCopy {
		return nil
	}
	if f.GoPtr {
		if a.Nil != b.Nil {
			return &Mismatch{path, nilstr(a.Nil), nilstr(b.Nil)}
		}
		if a.Nil {
			return nil
		}
	}
	return EqualType(f.Type, a, b, o, path)
}

func nilstr(n bool) string {
	if n {
		return "nil"
	}
	return "non-nil"
}

// EqualType compares two values at a type position. Floats by bits, maps as multisets.
func EqualType(t *TypeSpec, a, b Val, o EqOpts, path string) *Mismatch {
	switch t.Kind {
	case KBool:
		if a.B != b.B {
			return &Mismatch{path, fmt.Sprint(a.B), fmt.Sprint(b.B)}
		}
	case KI8, KI16, KI32, KI64, KEnum:
		if a.I != b.I {
			return &Mismatch{path, fmt.Sprint(a.I), fmt.Sprint(b.I)}
		}
	case KDouble:
		if a.F != b.F {
			return &Mismatch{path, fmt.Sprintf("%#x", a.F), fmt.Sprintf("%#x", b.F)}
		}
	case KString:
		if !bytes.Equal(a.S, b.S) {
			return &Mismatch{path, fmt.Sprintf("%q", short(a.S)), fmt.Sprintf("%q", short(b.S))}
		}
	case KBinary:
		if !o.NilEmptySame && a.Nil != b.Nil {
			return &Mismatch{path, nilstr(a.Nil) + " binary", nilstr(b.Nil) + " binary"}
		}
		if !bytes.Equal(a.S, b.S) {
			return &Mismatch{path, fmt.Sprintf("%q", short(a.S)), fmt.Sprintf("%q", short(b.S))}
		}
	case KList, KSet:
		if !o.NilEmptySame && a.Nil != b.Nil {
			return &Mismatch{path, nilstr(a.Nil) + " list", nilstr(b.Nil) + " list"}
		}
		if len(a.L) != len(b.L) {
			return &Mismatch{path + ".len", fmt.Sprint(len(a.L)), fmt.Sprint(len(b.L))}
		}
		for i := range a.L {
			if m := EqualType(t.Elem, a.L[i], b.L[i], o, fmt.Sprintf("%s[%d]", path, i)); m != nil {
				return m
			}
		}
	case KMap:
		if !o.NilEmptySame && a.Nil != b.Nil {
			return &Mismatch{path, nilstr(a.Nil) + " map", nilstr(b.Nil) + " map"}
		}
		if len(a.M) != len(b.M) {
			return &Mismatch{path + ".len", fmt.Sprint(len(a.M)), fmt.Sprint(len(b.M))}
		}
		// multiset comparison through canonical sort keys
		ka := sortedEntryKeys(t, a.M, o)
		kb := sortedEntryKeys(t, b.M, o)
		for i := range ka {
			if ka[i] != kb[i] {
				return &Mismatch{path + ".entries", short([]byte(ka[i])), short([]byte(kb[i]))}
			}
		}
	case KStruct:
		if t.Ptr {
			if a.Nil != b.Nil {
				if !o.NilStructFresh {
					return &Mismatch{path, nilstr(a.Nil) + " struct", nilstr(b.Nil) + " struct"}
				}
				if a.Nil {
					a = Val{St: FreshStruct(t.SS())}
				} else {
					b = Val{St: FreshStruct(t.SS())}
				}
			} else if a.Nil {
				return nil
			}
		}
		return EqualStruct(t.SS(), a.St, b.St, o, path)
	}
	return nil
}

func short(b []byte) string {
	if len(b) > 48 {
		return fmt.Sprintf("%x…(%d bytes)", b[:48], len(b))
	}
	return fmt.Sprintf("%x", b)
}

// EqualStruct compares two struct values.
func EqualStruct(s *StructSpec, a, b *SVal, o EqOpts, path string) *Mismatch {
	if a == nil || b == nil {
		if a == b {
			return nil
		}
		return &Mismatch{path, fmt.Sprint(a == nil), fmt.Sprint(b == nil)}
	}
	for _, f := range s.Sorted() {
		if m := EqualField(f, a.F[f.ID], b.F[f.ID], o, fmt.Sprintf("%s.%s#%d", path, f.Name, f.ID)); m != nil {
			return m
		}
	}
	if s.Holder && !o.IgnoreHolder {
		if !bytes.Equal(a.Unk, b.Unk) {
			return &Mismatch{path + "._unknownFields", short(a.Unk), short(b.Unk)}
		}
	}
	return nil
}

// sortedEntryKeys renders each entry into a canonical string (value-level, Go state
// included) and sorts them.
func sortedEntryKeys(t *TypeSpec, m []KV, o EqOpts) []string {
	out := make([]string, len(m))
	for i, kv := range m {
		var sb strings.Builder
		canonVal(&sb, t.Key, kv.K, o)
		sb.WriteString("=>")
		canonVal(&sb, t.Elem, kv.V, o)
		out[i] = sb.String()
	}
	sort.Strings(out)
	return out
}

// canonVal writes a canonical rendering of the Go-level state of v.
func canonVal(sb *strings.Builder, t *TypeSpec, v Val, o EqOpts) {
	switch t.Kind {
	case KBool:
		fmt.Fprintf(sb, "b%v", v.B)
	case KI8, KI16, KI32, KI64, KEnum:
		fmt.Fprintf(sb, "i%d", v.I)
	case KDouble:
		fmt.Fprintf(sb, "f%x", v.F)
	case KString:
		fmt.Fprintf(sb, "s%x", v.S)
	case KBinary:
		if v.Nil && !o.NilEmptySame {
			sb.WriteString("Bnil")
		} else {
			fmt.Fprintf(sb, "B%x", v.S)
		}
	case KList, KSet:
		if v.Nil && !o.NilEmptySame {
			sb.WriteString("Lnil")
			return
		}
		sb.WriteString("[")
		for _, e := range v.L {
			canonVal(sb, t.Elem, e, o)
			sb.WriteString(",")
		}
		sb.WriteString("]")
	case KMap:
		if v.Nil && !o.NilEmptySame {
			sb.WriteString("Mnil")
			return
		}
		sb.WriteString("{")
		for _, k := range sortedEntryKeys(t, v.M, o) {
			sb.WriteString(k)
			sb.WriteString(",")
		}
		sb.WriteString("}")
	case KStruct:
		if t.Ptr && v.Nil {
			if !o.NilStructFresh {
				sb.WriteString("Snil")
				return
			}
			v = Val{St: FreshStruct(t.SS())}
		}
		s := t.SS()
		sb.WriteString("(")
		for _, f := range s.Sorted() {
			fv := v.St.F[f.ID]
			fmt.Fprintf(sb, "%d:", f.ID)
			if f.NoCopy && o.SkipNoCopy {
				sb.WriteString("nocopy;")
				continue
			}
			if f.GoPtr {
				if fv.Nil {
					sb.WriteString("Pnil;")
					continue
				}
				sb.WriteString("P")
			}
			canonVal(sb, f.Type, fv, o)
			sb.WriteString(";")
		}
		if s.Holder && !o.IgnoreHolder {
			fmt.Fprintf(sb, "unk:%x", v.St.Unk)
		}
		sb.WriteString(")")
	}
}

// CanonStruct renders a struct value canonically (hashing, diagnostics).
func CanonStruct(s *StructSpec, v *SVal) string {
	var sb strings.Builder
	canonVal(&sb, &TypeSpec{Kind: KStruct, Struct: s}, Val{St: v}, EqOpts{})
	return sb.String()
}

// NonZeroLeaves counts leaves that differ from the Go zero value (non-triviality rules).
func NonZeroLeaves(s *StructSpec, v *SVal) int {
	n := 0
	var wt func(t *TypeSpec, v Val)
	wt = func(t *TypeSpec, v Val) {
		switch t.Kind {
		case KBool:
			if v.B {
				n++
			}
		case KI8, KI16, KI32, KI64, KEnum:
			if v.I != 0 {
				n++
			}
		case KDouble:
			if v.F != 0 {
				n++
			}
		case KString, KBinary:
			if len(v.S) > 0 {
				n++
			}
		case KList, KSet:
			for _, e := range v.L {
				wt(t.Elem, e)
			}
			if len(v.L) > 0 {
				n++
			}
		case KMap:
			for _, kv := range v.M {
				wt(t.Key, kv.K)
				wt(t.Elem, kv.V)
			}
			if len(v.M) > 0 {
				n++
			}
		case KStruct:
			if v.Nil || v.St == nil {
				return
			}
			for _, f := range t.SS().Fields {
				fv := v.St.F[f.ID]
				if f.GoPtr && fv.Nil {
					continue
				}
				wt(f.Type, fv)
			}
		}
	}
	wt(&TypeSpec{Kind: KStruct, Struct: s}, Val{St: v})
	return n
}
