package core

import "fmt"

// Hand-curated named types: the shapes the properties name explicitly.

func ts(k Kind) *TypeSpec                  { return &TypeSpec{Kind: k} }
func tref(name string, ptr bool) *TypeSpec { return &TypeSpec{Kind: KStruct, Ref: name, Ptr: ptr} }
func tlist(e *TypeSpec) *TypeSpec          { return &TypeSpec{Kind: KList, Elem: e} }
func tset(e *TypeSpec) *TypeSpec           { return &TypeSpec{Kind: KSet, Elem: e} }
func tmap(k, v *TypeSpec) *TypeSpec        { return &TypeSpec{Kind: KMap, Key: k, Elem: v} }
func tenum(n string) *TypeSpec             { return &TypeSpec{Kind: KEnum, Named: n} }

type fb struct {
	s *StructSpec
}

func newS(name string) *fb { return &fb{s: &StructSpec{Name: name}} }

func (b *fb) f(id uint16, r Req, t *TypeSpec, opts ...string) *fb {
	f := &FieldSpec{ID: id, Req: r, Type: t, Name: fmt.Sprintf("F%d_%s", id, b.s.Name)}
	for _, o := range opts {
		switch o {
		case "ptr":
			f.GoPtr = true
		case "nocopy":
			f.NoCopy = true
		}
	}
	b.s.Fields = append(b.s.Fields, f)
	return b
}

func (b *fb) holder() *fb { b.s.Holder = true; return b }

func (b *fb) init(whole bool, defs map[uint16]Val) *fb {
	b.s.HasInit = true
	b.s.InitWhole = whole
	b.s.Defaults = defs
	return b
}

// CuratedSpecs returns the curated universe.
func CuratedSpecs() []*StructSpec {
	var out []*StructSpec
	add := func(b *fb) { out = append(out, b.s) }

	// recursive shapes (C15, C01)
	add(newS("RecS").f(1, Optional, tref("RecS", true)).f(2, Default, ts(KI32)))
	add(newS("RecL").f(1, Default, tlist(tref("RecL", true))).f(2, Default, ts(KString)))
	add(newS("RecSet").f(1, Default, tset(tref("RecSet", true))))
	add(newS("RecMV").f(1, Default, tmap(ts(KI32), tref("RecMV", true))))
	add(newS("RecMK").f(1, Default, tmap(tref("RecMK", true), ts(KI32))))
	add(newS("RecLL").f(1, Default, tlist(tlist(tref("RecLL", true)))))
	add(newS("RecMix").
		f(1, Optional, tref("RecMix", true)).
		f(2, Default, tlist(tref("RecMix", true))).
		f(3, Default, tmap(ts(KString), tref("RecMix", true))).
		f(4, Default, tset(tref("RecMix", true))).
		f(5, Default, tmap(tref("RecMix", true), ts(KI8))).
		f(6, Default, tlist(tmap(ts(KI16), tset(tref("RecMix", true))))).
		f(7, Default, ts(KI64)))
	add(newS("RecH").f(1, Optional, tref("RecH", true)).f(2, Default, tlist(tref("RecH", true))).f(3, Default, ts(KI16)).holder())
	// a wide record: many variable-length fields at every level next to the recursive links (C15:
	// depth accounting must count levels, not the fields decoded on the way down)
	wide := newS("RecWide").f(1, Optional, tref("RecWide", true)).f(2, Default, tlist(tref("RecWide", true))).
		f(3, Default, tmap(ts(KString), tref("RecWide", true)))
	for j := 0; j < 24; j++ {
		req := Default
		if j%3 == 2 {
			req = Optional
		}
		wide.f(uint16(10+j), req, ts(KString))
	}
	wide.f(40, Default, tlist(ts(KString))).f(41, Default, tmap(ts(KI32), ts(KString))).f(42, Default, ts(KBinary)).f(43, Default, ts(KI32))
	add(wide)
	// recursion through containers of structs held by value (no pointer anywhere on the way down)
	add(newS("RecBV").f(1, Default, tmap(ts(KI32), tref("RecBV", false))).f(2, Default, tlist(tref("RecBV", false))).
		f(3, Default, tmap(ts(KI32), tlist(tref("RecBV", false)))).f(4, Default, ts(KI16)))
	// a recursive type whose required field comes after its links on the wire (C15: the kind of the
	// error for over-deep input must not depend on what the enclosing structs still wait for)
	add(newS("RecReq").f(1, Optional, tref("RecReq", true)).f(2, Default, tlist(tref("RecReq", true))).f(3, Required, ts(KI64)).holder())
	// mutual recursion (C07, C08, C13 orders of first use)
	add(newS("MutA").f(1, Optional, tref("MutB", true)).f(2, Required, ts(KI64)))
	add(newS("MutB").f(1, Default, tlist(tref("MutA", true))).f(2, Optional, tref("MutC", true)))
	add(newS("MutC").f(1, Default, tmap(ts(KString), tref("MutA", true))).f(3, Default, ts(KBool)))

	// defaults of every optional kind, both initialiser styles
	defs := func() map[uint16]Val {
		return map[uint16]Val{
			1:  {B: true},
			2:  {I: -7},
			3:  {I: 300},
			4:  {I: -100000},
			5:  {I: 1 << 40},
			6:  {F: 0x8000000000000000}, // -0.0
			7:  {F: 0x7ff8000000000001}, // NaN
			8:  {S: []byte("dflt")},
			9:  {S: []byte{0, 1, 2}},
			10: {I: -2},
			11: {F: 0x400921fb54442d18},
			13: {S: []byte{}},
			14: {I: 0}, // declared default equal to zero
		}
	}
	mk := func(name string, whole bool) *fb {
		return newS(name).
			f(1, Optional, ts(KBool)).f(2, Optional, ts(KI8)).f(3, Optional, ts(KI16)).f(4, Optional, ts(KI32)).
			f(5, Optional, ts(KI64)).f(6, Optional, ts(KDouble)).f(7, Optional, ts(KDouble)).f(8, Optional, ts(KString)).
			f(9, Optional, ts(KBinary)).f(10, Optional, tenum("E2")).f(11, Default, ts(KDouble)).
			f(12, Optional, ts(KString)). // optional without declared default
			f(13, Optional, ts(KBinary)). // declared default: empty, non-nil
			f(14, Optional, ts(KI32)).
			f(15, Optional, ts(KI32), "ptr").
			f(16, Optional, tlist(ts(KI32))).
			f(17, Required, ts(KI32)).
			init(whole, defs())
	}
	add(mk("DefW", true))
	add(mk("DefF", false))
	add(mk("DefH", false).holder())
	add(newS("DefNest").
		f(1, Optional, tref("DefW", true)).
		f(2, Default, tlist(tref("DefF", true))).
		f(3, Default, tmap(ts(KString), tref("DefW", true))).
		f(4, Default, tref("DefF", false)).
		f(5, Default, tmap(ts(KI32), tref("DefW", false))).
		f(6, Default, tlist(tref("DefF", false))).
		f(7, Optional, tref("DefH", false)).
		f(8, Default, tmap(tref("DefF", true), ts(KBool))).
		// by-value map values whose initialiser assigns field by field (it does not reset the rest)
		f(9, Default, tmap(ts(KString), tref("DefF", false))).
		f(10, Optional, tmap(ts(KI32), tref("DefH", false))))
	// by-value nesting without defaults, with holders inside containers
	add(newS("ValIn").f(1, Default, ts(KI32)).f(2, Optional, ts(KString), "ptr").f(3, Default, tlist(ts(KI64))).holder())
	add(newS("ValOut").
		f(1, Default, tref("ValIn", false)).
		f(2, Default, tlist(tref("ValIn", false))).
		f(3, Default, tmap(ts(KString), tref("ValIn", false))).
		f(4, Optional, tref("ValIn", true)).
		f(5, Default, tmap(ts(KI64), tlist(tref("ValIn", false)))).holder())
	// two levels by value: the middle struct has nothing an encoder may leave out, the inner one has
	// (what one map entry or list element leaves unset must not come from its neighbour)
	add(newS("ValLeaf").f(1, Optional, ts(KString)).f(2, Optional, tlist(ts(KI32))).f(3, Default, ts(KI32)).f(4, Optional, ts(KI64), "ptr"))
	add(newS("ValMid").f(1, Required, ts(KI32)).f(2, Default, tref("ValLeaf", false)).f(3, Default, ts(KBool)))
	add(newS("ValReq").f(1, Required, ts(KI32)).f(2, Required, tref("ValLeaf", false)).f(3, Required, ts(KString)))
	add(newS("ValTop").
		f(6, Default, tmap(ts(KI32), tref("ValReq", false))).
		f(7, Default, tlist(tref("ValReq", false))).
		f(8, Optional, tmap(ts(KString), tref("ValReq", false))).
		f(1, Default, tmap(ts(KI32), tref("ValMid", false))).
		f(2, Default, tlist(tref("ValMid", false))).
		f(3, Default, tmap(ts(KString), tref("ValMid", false))).
		f(4, Default, tref("ValMid", false)).
		f(5, Default, tmap(ts(KI64), tmap(ts(KI16), tref("ValMid", false)))))
	// required ids around presence-set word boundaries, nested in containers
	add(newS("ReqW").f(63, Required, ts(KI32)).f(64, Required, ts(KString)).f(65, Required, ts(KBool)).
		f(127, Required, ts(KI8)).f(128, Required, tlist(ts(KI16))).f(1, Optional, ts(KI32), "ptr"))
	add(newS("ReqNest").f(1, Default, tlist(tref("ReqW", true))).f(2, Default, tmap(ts(KI32), tref("ReqW", true))).
		f(3, Optional, tref("ReqW", true)).f(4, Default, tmap(tref("ReqW", true), ts(KI32))).f(255, Required, ts(KI64)).f(256, Required, ts(KDouble)))
	// nocopy fields with declared non-empty defaults: a message carrying exactly the default still
	// has to be viewed, not recognised as "already there"
	ncdefs := map[uint16]Val{1: {S: []byte("view-me-not")}, 2: {S: []byte("optional-default")}, 3: {S: []byte{9, 8, 7, 6}}, 4: {S: []byte("plain-default")}}
	add(newS("NcDef").f(1, Default, ts(KString), "nocopy").f(2, Optional, ts(KString), "nocopy").f(3, Default, ts(KBinary), "nocopy").
		f(4, Default, ts(KString)).f(5, Default, ts(KString), "nocopy").init(false, ncdefs))
	add(newS("NcDefOut").f(1, Optional, tref("NcDef", true)).f(2, Default, tlist(tref("NcDef", true))).f(3, Default, tref("NcDef", false)).
		f(4, Default, tmap(ts(KI32), tref("NcDef", false))).f(5, Default, ts(KString), "nocopy"))
	// nocopy mixes (C14)
	add(newS("NcIn").f(1, Default, ts(KString), "nocopy").f(2, Default, ts(KBinary), "nocopy").f(3, Default, ts(KString)).
		f(4, Optional, ts(KString), "ptr", "nocopy").f(5, Optional, ts(KBinary)).f(6, Default, tlist(ts(KString))))
	add(newS("NcOut").f(1, Default, tref("NcIn", true)).f(2, Default, tlist(tref("NcIn", true))).f(3, Default, tmap(ts(KString), tref("NcIn", true))).
		f(4, Default, ts(KString), "nocopy").f(5, Default, tref("NcIn", false)).f(6, Default, tmap(ts(KString), ts(KBinary))))
	return out
}
