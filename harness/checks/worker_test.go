package checks

// Worker-side infrastructure shared by every check: environment, statistics for the
// evidence file, failure/replay files, the one-case journal for fatal crashes, and
// panic capture.

import (
	"encoding/binary"
	"encoding/json"
	"fmt"
	"hash/fnv"
	"os"
	"path/filepath"
	"runtime"
	"runtime/debug"
	"sort"
	"strconv"
	"strings"
	"sync"
	"testing"
	"verif/harness/core"

	"pgregory.net/rapid"
)

// Failure is one oracle violation.
type Failure struct {
	Class string `json:"class"` // short oracle class, e.g. "roundtrip-mismatch", "panic"
	Msg   string `json:"msg"`
	// Case, when set, replaces the generated case in the replay file (a check that
	// enumerates many inputs per generated case saves exactly the failing one).
	Case interface{} `json:"-"`
	// Known, when set, names the open known finding this failure is an instance of.
	Known string `json:"-"`
}

func failf(class, format string, a ...interface{}) *Failure {
	return &Failure{Class: class, Msg: fmt.Sprintf(format, a...)}
}

// worker collects what one process did.
type worker struct {
	id      string
	t       *testing.T
	mu      sync.Mutex
	evals   int
	hashes  map[uint64]struct{}
	classes map[string]int
	excl    map[string]int
	samples []json.RawMessage
	extra   map[string]interface{}
	maxSamp int
	journal string
	failDir string
	nFail   int
}

func envInt(k string, def int) int {
	if s := os.Getenv(k); s != "" {
		if v, err := strconv.Atoi(s); err == nil {
			return v
		}
	}
	return def
}

func tier() string {
	if os.Getenv("VERIF_TIER") == "thorough" {
		return "thorough"
	}
	return "quick"
}

func thorough() bool { return tier() == "thorough" }

func shard() int   { return envInt("VERIF_SHARD", 0) }
func nshards() int { return envInt("VERIF_NSHARDS", 1) }

// newWorker: t may be nil (fuzz targets keep their own *testing.T per input).
func newWorker(t *testing.T, id string) *worker {
	debug.SetPanicOnFault(true)
	debug.SetMaxStack(256 << 20)
	w := &worker{id: id, t: t, hashes: map[uint64]struct{}{}, classes: map[string]int{}, excl: map[string]int{},
		extra: map[string]interface{}{}, maxSamp: 6,
		journal: os.Getenv("VERIF_JOURNAL"), failDir: os.Getenv("VERIF_FAILDIR")}
	return w
}

// count records one executed case.
func (w *worker) count(nontrivial bool, hashKey string, sample interface{}, labels ...string) {
	w.mu.Lock()
	defer w.mu.Unlock()
	w.evals++
	for _, l := range labels {
		w.classes[l]++
	}
	if nontrivial {
		h := fnv.New64a()
		h.Write([]byte(hashKey))
		k := h.Sum64()
		if _, ok := w.hashes[k]; !ok {
			w.hashes[k] = struct{}{}
			if len(w.samples) < w.maxSamp && sample != nil && (len(w.hashes)%97 == 1 || len(w.samples) == 0) {
				if b, err := json.Marshal(sample); err == nil && len(b) < 6000 {
					w.samples = append(w.samples, b)
				}
			}
		}
	}
}

func (w *worker) label(l string) {
	w.mu.Lock()
	w.classes[l]++
	w.mu.Unlock()
}

func (w *worker) exclude(finding string) {
	w.mu.Lock()
	w.excl[finding]++
	w.mu.Unlock()
}

// journalCase rewrites the one-case journal before a crash-prone case executes.
func (w *worker) journalCase(c interface{}) {
	if w.journal == "" {
		return
	}
	b, err := json.Marshal(c)
	if err != nil {
		return
	}
	tmp := w.journal + ".tmp"
	if os.WriteFile(tmp, b, 0o644) == nil {
		os.Rename(tmp, w.journal)
	}
}

// saveFail writes the failing case; rapid calls the property again while shrinking and
// finally with the minimal case, so the last file written is the shrunk one.
func (w *worker) saveFail(c interface{}, f *Failure) {
	if w.failDir == "" {
		return
	}
	w.nFail++
	if f.Case != nil {
		c = f.Case
	}
	rec := map[string]interface{}{"property": w.id, "failure": f, "case": c, "universe": envInt("VERIF_UNIVERSE", 1)}
	if f.Known != "" {
		rec["known"] = f.Known
	}
	env := map[string]string{}
	for _, kv := range os.Environ() {
		if strings.HasPrefix(kv, "FRUGAL_") || strings.HasPrefix(kv, "VERIF_C17_") || strings.HasPrefix(kv, "GODEBUG=") {
			if i := strings.IndexByte(kv, '='); i > 0 {
				env[kv[:i]] = kv[i+1:]
			}
		}
	}
	if len(env) > 0 {
		rec["env"] = env
	}
	b, err := json.MarshalIndent(rec, "", " ")
	if err != nil {
		b = []byte(fmt.Sprintf(`{"property":%q,"failure":{"class":%q,"msg":%q},"case":null}`, w.id, f.Class, f.Msg))
	}
	os.MkdirAll(w.failDir, 0o755)
	os.WriteFile(filepath.Join(w.failDir, fmt.Sprintf("%s-shard%d.json", w.id, shard())), b, 0o644)
}

// finish writes the statistics file.
func (w *worker) finish() {
	out := os.Getenv("VERIF_OUT")
	if out == "" {
		return
	}
	w.mu.Lock()
	defer w.mu.Unlock()
	hs := make([]uint64, 0, len(w.hashes))
	for h := range w.hashes {
		hs = append(hs, h)
	}
	sort.Slice(hs, func(i, j int) bool { return hs[i] < hs[j] })
	hb := make([]byte, 8*len(hs))
	for i, h := range hs {
		binary.LittleEndian.PutUint64(hb[8*i:], h)
	}
	os.WriteFile(out+".hashes", hb, 0o644)
	for k, v := range core.HugeDrawn {
		w.classes["generated:"+k] += v // drawn (shrinking included), not necessarily evaluated distinct
	}
	st := map[string]interface{}{
		"property": w.id, "shard": shard(), "evaluations": w.evals, "distinct_nontrivial": len(hs),
		"classes": w.classes, "excluded": w.excl, "samples": w.samples, "extra": w.extra, "failures": w.nFail,
	}
	b, _ := json.Marshal(st)
	os.WriteFile(out, b, 0o644)
}

// safely runs fn converting a panic (including memory faults, thanks to
// SetPanicOnFault) into a Failure.
func safely(what string, fn func()) (f *Failure) {
	defer func() {
		if r := recover(); r != nil {
			cls := "panic"
			if re, ok := r.(runtime.Error); ok {
				msg := re.Error()
				if strings.Contains(msg, "nil pointer") || strings.Contains(msg, "fault") || strings.Contains(msg, "invalid memory") {
					cls = "panic-memfault"
				}
			}
			stack := string(debug.Stack())
			// keep the frames below the panic
			if i := strings.Index(stack, "panic("); i >= 0 {
				stack = stack[i:]
			}
			if len(stack) > 1500 {
				stack = stack[:1500]
			}
			f = failf(cls, "%s panicked: %v\n%s", what, r, stack)
		}
	}()
	fn()
	return nil
}

// caseRunner ties a case type to its generator and executor.
type caseRunner[C any] struct {
	w   *worker
	gen func(t *rapid.T) C
	run func(c C) *Failure
	// journalled checks rewrite the journal before every case
	journalled bool
}

// drive runs the check: replay mode (VERIF_REPLAY) bypasses rapid entirely.
func drive[C any](t *testing.T, r caseRunner[C]) {
	defer r.w.finish()
	if p := os.Getenv("VERIF_REPLAY"); p != "" {
		b, err := os.ReadFile(p)
		if err != nil {
			t.Fatalf("replay: %v", err)
		}
		var rec struct {
			Case    json.RawMessage `json:"case"`
			Failure struct {
				Class string `json:"class"`
			} `json:"failure"`
		}
		if err := json.Unmarshal(b, &rec); err != nil || rec.Case == nil {
			rec.Case = b // a bare case (journal file)
		}
		if rec.Failure.Class == "process-dies-under-valid-environment" {
			// the recorded failure is that a process with this environment does not get this far
			fmt.Println("REPLAY-PASS")
			return
		}
		var c C
		if err := json.Unmarshal(rec.Case, &c); err != nil {
			t.Fatalf("replay: cannot parse case: %v", err)
		}
		if f := r.run(c); f != nil {
			r.w.saveFail(c, f)
			fmt.Printf("REPLAY-FAIL class=%s %s\n", f.Class, firstLine(f.Msg))
			t.Fatalf("replayed case fails: [%s] %s", f.Class, f.Msg)
		}
		fmt.Println("REPLAY-PASS")
		return
	}
	rapid.Check(t, func(rt *rapid.T) {
		c := r.gen(rt)
		if r.journalled {
			r.w.journalCase(c)
		}
		if f := r.run(c); f != nil {
			r.w.saveFail(c, f)
			rt.Fatalf("[%s] %s", f.Class, f.Msg)
		}
	})
}

func firstLine(s string) string {
	if i := strings.IndexByte(s, '\n'); i >= 0 {
		return s[:i]
	}
	return s
}

// openFinding reports whether the driver lists the finding as open in known_findings.json
// (VERIF_OPEN). Only open findings are excluded from the search; a fixed one suppresses nothing.
func openFinding(id string) bool {
	for _, x := range strings.Split(os.Getenv("VERIF_OPEN"), ",") {
		if x == id {
			return true
		}
	}
	return false
}
