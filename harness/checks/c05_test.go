package checks

import (
	"encoding/binary"
	"fmt"
	"reflect"
	"runtime"
	"runtime/debug"
	"testing"

	"pgregory.net/rapid"

	"verif/harness/core"
)

// C05 — malformed input is rejected with an error, never a crash or blow-up.

type mutation struct {
	Kind string `json:"k"` // prefix, byte, len, splice, insert, delete
	Pos  int    `json:"p,omitempty"`
	Val  int64  `json:"v,omitempty"`
}

type c05Case struct {
	S     *core.StructSpec `json:"s"`
	Base  []byte           `json:"base,omitempty"`  // a well-formed message for S
	Other []byte           `json:"other,omitempty"` // another message (splices)
	Muts  []mutation       `json:"muts,omitempty"`
	Exact []byte           `json:"exact,omitempty"` // replay of one exact input
	All   bool             `json:"all,omitempty"`   // also enumerate every prefix and every site corruption
}

func c05Cfg() core.GenCfg {
	c := c01Cfg()
	c.MaxBytes = 1024
	c.RequiredBias = 10
	return c
}

func genC05(t *rapid.T) c05Case {
	cfg := c05Cfg()
	tv := genTV(cfg)(t)
	c := c05Case{S: tv.S}
	if rapid.Bool().Draw(t, "edited") {
		c.Base, _ = genWireMsg(t, tv.S, tv.V, fullEdit)
	} else {
		c.Base = core.RefEncode(tv.S, tv.V)
	}
	c.All = len(c.Base) <= 160 || rapid.IntRange(0, 9).Draw(t, "all") == 0
	if rapid.IntRange(0, 3).Draw(t, "withother") == 0 {
		v2 := core.GenStructVal(t, cfg, tv.S)
		c.Other = core.RefEncode(tv.S, v2)
	}
	n := rapid.IntRange(1, 10).Draw(t, "nmut")
	for i := 0; i < n; i++ {
		k := rapid.SampledFrom([]string{"prefix", "byte", "byte", "len", "len", "len", "splice", "insert", "delete", "random"}).Draw(t, "mk")
		m := mutation{Kind: k, Pos: rapid.IntRange(0, 1<<20).Draw(t, "mp")}
		switch k {
		case "byte", "insert":
			m.Val = int64(rapid.SampledFrom([]int{0, 1, 2, 3, 4, 6, 8, 10, 11, 12, 13, 14, 15, 16, 17, 0x7f, 0x80, 0xff}).Draw(t, "mv"))
		case "len":
			m.Val = int64(rapid.IntRange(0, len(lenVals)-1).Draw(t, "mv"))
		case "random":
			m.Val = int64(rapid.IntRange(0, 1<<30).Draw(t, "mv"))
		}
		c.Muts = append(c.Muts, m)
	}
	return c
}

var lenVals = []string{"-1", "min", "max", "2^30", "2^24", "remaining", "remaining+1", "remaining/min+1", "0", "65536", "256"}

// sites of a message: offsets of 4-byte length/count fields and of type-code bytes.
type site struct {
	off    int
	minElt int // for counts: minimal wire size of one element/entry; 1 for string lengths
}

func collectSites(b []byte) (lens []site, types []int) {
	tree, _, err := core.ParseStruct(b, 1<<20)
	if err != nil {
		return nil, nil
	}
	var walk func(n *core.WNode)
	walk = func(n *core.WNode) {
		switch n.T {
		case core.WString:
			lens = append(lens, site{n.Off, 1})
		case core.WStruct:
			for i := range n.Fields {
				types = append(types, n.Fields[i].Off)
				walk(&n.Fields[i].V)
			}
		case core.WList, core.WSet:
			types = append(types, n.Off)
			lens = append(lens, site{n.Off + 1, 1})
			for i := range n.Elems {
				walk(&n.Elems[i])
			}
		case core.WMap:
			types = append(types, n.Off, n.Off+1)
			lens = append(lens, site{n.Off + 2, 2})
			for i := range n.Keys {
				walk(&n.Keys[i])
				walk(&n.Vals[i])
			}
		}
	}
	walk(&tree)
	return
}

func lenValue(which int, remaining, minElt int) uint32 {
	switch lenVals[which] {
	case "-1":
		return 0xffffffff
	case "min":
		return 0x80000000
	case "max":
		return 0x7fffffff
	case "2^30":
		return 1 << 30
	case "2^24":
		return 1 << 24
	case "remaining":
		return uint32(remaining)
	case "remaining+1":
		return uint32(remaining + 1)
	case "remaining/min+1":
		return uint32(remaining/minElt + 1)
	case "65536":
		return 65536
	case "256":
		return 256
	}
	return 0
}

// allocation bound: 1 MiB + K(T) * len(input)
func allocK(s *core.StructSpec) int {
	ratio := 1
	s.WalkTypes(func(t *core.TypeSpec) {
		var per int
		switch t.Kind {
		case core.KList, core.KSet:
			per = goSizeOf(t.Elem) / max(1, minWire(t.Elem))
		case core.KMap:
			per = 2 * (goSizeOf(t.Key) + goSizeOf(t.Elem) + 16) / max(1, minWire(t.Key)+minWire(t.Elem))
		}
		if per > ratio {
			ratio = per
		}
	})
	return 16384 + 16*ratio
}

func goSizeOf(t *core.TypeSpec) int {
	rt := core.GoType(t)
	sz := int(rt.Size())
	if rt.Kind() == reflect.Ptr {
		sz += int(rt.Elem().Size())
	}
	return sz
}

func minWire(t *core.TypeSpec) int {
	switch t.Kind {
	case core.KString, core.KBinary:
		return 4
	case core.KStruct:
		return 1
	case core.KList, core.KSet:
		return 5
	case core.KMap:
		return 6
	}
	return t.FixedWidth()
}

type c05Runner struct {
	w      *worker
	ms     runtime.MemStats
	ncases int
	warm   map[reflect.Type]bool
}

// one checks a single (type, input) pair.
func (r *c05Runner) one(s *core.StructSpec, in []byte, k int, what string) *Failure {
	b := core.Bind(s)
	dest := newDest(b)
	exp := core.FreshStruct(s)
	verdict := core.RefDecode(s, in, exp)
	buf := append(make([]byte, 0, len(in)), in...) // exact capacity: nothing readable behind the input
	iface := dest.Interface()
	if !r.warm[b.Type] {
		// first use builds the type's descriptors (a one-off cost per type, e.g. 8 bytes per
		// field id up to the largest): keep it out of the per-call allocation measurement
		r.warm[b.Type] = true
		if _, _, f := fDecode([]byte{0}, newDest(b).Interface()); f != nil {
			f.Msg = "first use (empty struct message): " + f.Msg
			f.Case = c05Case{S: s, Exact: []byte{0}}
			return f
		}
	}
	runtime.ReadMemStats(&r.ms)
	before := r.ms.TotalAlloc
	n, err, f := fDecode(buf, iface)
	runtime.ReadMemStats(&r.ms)
	alloc := r.ms.TotalAlloc - before
	r.ncases++
	if r.ncases%2000 == 0 {
		runtime.GC()
	}
	sub := c05Case{S: s, Exact: in}
	fail := func(f *Failure) *Failure {
		f.Msg = what + ": " + f.Msg + fmt.Sprintf(" [input %s]", hexs(in))
		f.Case = sub
		return f
	}
	if f != nil {
		return fail(f)
	}
	if bound := uint64(1<<20 + k*len(in)); alloc > bound {
		return fail(failf("alloc-blowup", "DecodeObject allocated %d bytes for %d input bytes (bound %d; err=%v)", alloc, len(in), bound, err))
	}
	if string(buf) != string(in) {
		return fail(failf("input-modified", "DecodeObject modified its input buffer"))
	}
	if ferr := b.CheckExtras(dest.Elem()); ferr != nil {
		return fail(failf("ignored-field-touched", "%v", ferr))
	}
	label := "verdict:" + verdict.Kind.String()
	switch verdict.Kind {
	case core.VOK:
		if err != nil {
			return fail(failf("wellformed-rejected", "input begins with a well-formed message but was rejected: %v", err))
		}
	case core.VErr:
		if err == nil {
			return fail(failf("malformed-accepted", "model: %s; DecodeObject returned n=%d, err=nil", verdict.Why, n))
		}
		if len(verdict.MissingRequired) > 0 {
			if f := checkRequiredErr(err, verdict); f != nil {
				return fail(f)
			}
		}
	}
	if err == nil {
		if n < 0 || n > len(in) {
			return fail(failf("consumed-wrong", "DecodeObject returned n=%d for %d input bytes", n, len(in)))
		}
		if verdict.Kind == core.VOK || (verdict.Kind == core.VGray) {
			if n != verdict.N {
				return fail(failf("consumed-wrong", "DecodeObject returned n=%d, the top-level STOP ends at %d", n, verdict.N))
			}
			if !verdict.GrayValue {
				got := b.Lift(dest.Elem())
				if m := core.EqualStruct(s, got, exp, core.EqOpts{}, "$"); m != nil {
					return fail(failf("decoded-value-differs", "destination differs from the reference decoder (got vs want) %s", m))
				}
			}
		}
	}
	nontriv := verdict.Kind != core.VOK && (verdict.Known+verdict.Skipped >= 1 || verdict.MaxDepth >= 1)
	r.w.count(nontriv, s.Sig()+string(in), sub, label, "mut:"+what)
	return nil
}

func applyMutation(c *c05Case, m mutation, lens []site) ([]byte, string) {
	base := c.Base
	switch m.Kind {
	case "prefix":
		return base[:m.Pos%(len(base)+1)], "prefix"
	case "byte":
		if len(base) == 0 {
			return base, "byte"
		}
		out := append([]byte{}, base...)
		out[m.Pos%len(out)] = byte(m.Val)
		return out, "byte"
	case "len":
		if len(lens) == 0 {
			return base, "len-nosite"
		}
		st := lens[m.Pos%len(lens)]
		out := append([]byte{}, base...)
		binary.BigEndian.PutUint32(out[st.off:], lenValue(int(m.Val), len(base)-st.off-4, st.minElt))
		return out, "len:" + lenVals[m.Val]
	case "splice":
		o := c.Other
		if o == nil {
			o = base
		}
		a := m.Pos % (len(base) + 1)
		bb := (m.Pos / 7) % (len(o) + 1)
		return append(append([]byte{}, base[:a]...), o[bb:]...), "splice"
	case "insert":
		p := m.Pos % (len(base) + 1)
		out := append([]byte{}, base[:p]...)
		out = append(out, byte(m.Val))
		return append(out, base[p:]...), "insert"
	case "delete":
		if len(base) == 0 {
			return base, "delete"
		}
		p := m.Pos % len(base)
		return append(append([]byte{}, base[:p]...), base[p+1:]...), "delete"
	case "random":
		n := m.Pos % 96
		out := make([]byte, n)
		x := uint64(m.Val)*6364136223846793005 + 1442695040888963407
		for i := range out {
			x = x*6364136223846793005 + 1442695040888963407
			out[i] = byte(x >> 33)
			if i%3 == 0 {
				out[i] = []byte{0, 2, 3, 4, 6, 8, 10, 11, 12, 13, 14, 15}[out[i]%12]
			}
		}
		return out, "random"
	}
	return base, "none"
}

func (r *c05Runner) run(c c05Case) *Failure {
	k := allocK(c.S)
	if c.Exact != nil {
		return r.one(c.S, c.Exact, k, "exact")
	}
	lens, types := collectSites(c.Base)
	for _, m := range c.Muts {
		in, what := applyMutation(&c, m, lens)
		if f := r.one(c.S, in, k, what); f != nil {
			return f
		}
	}
	if !c.All {
		return nil
	}
	for l := 0; l <= len(c.Base); l++ {
		if f := r.one(c.S, c.Base[:l], k, "prefix"); f != nil {
			return f
		}
	}
	for _, st := range lens {
		for vi := range lenVals {
			out := append([]byte{}, c.Base...)
			binary.BigEndian.PutUint32(out[st.off:], lenValue(vi, len(c.Base)-st.off-4, st.minElt))
			if f := r.one(c.S, out, k, "len:"+lenVals[vi]); f != nil {
				return f
			}
		}
	}
	for _, off := range types {
		for _, code := range []byte{0, 1, 2, 3, 4, 6, 8, 10, 11, 12, 13, 14, 15, 16, 0xff} {
			if c.Base[off] == code {
				continue
			}
			out := append([]byte{}, c.Base...)
			out[off] = code
			if f := r.one(c.S, out, k, "typecode"); f != nil {
				return f
			}
		}
	}
	return nil
}

func TestC05(t *testing.T) {
	w := newWorker(t, "C05")
	debug.SetGCPercent(-1) // GC off during calls: TotalAlloc deltas are exact; collected manually
	r := &c05Runner{w: w, warm: map[reflect.Type]bool{}}
	drive(t, caseRunner[c05Case]{w: w, gen: genC05, run: r.run, journalled: true})
}
