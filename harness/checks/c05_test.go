package checks

import (
	"encoding/binary"
	"fmt"
	"os"
	"reflect"
	"runtime"
	"runtime/debug"
	"testing"

	"pgregory.net/rapid"

	"verif/harness/core"
)

// C05 — malformed input is rejected with an error, never a crash or blow-up.

type mutation struct {
	Kind string `json:"k"` // prefix, byte, len, splice, insert, delete
	Pos  int    `json:"p,omitempty"`
	Val  int64  `json:"v,omitempty"`
}

// count bombs: nested containers of a recursive type where the count at EVERY level claims all
// the bytes that remain at that level (each one passes a "count fits the remaining input" test).
type bombShape struct {
	typ, shape string
	countOff   []int // offsets of the 4-byte counts inside the shape's prefix
	minEntry   int   // minimal wire size of one element / entry
}

var c05Bombs = []bombShape{
	{"RecL", "L", []int{4}, 1}, {"RecSet", "E", []int{4}, 1}, {"RecMV", "M", []int{5}, 5}, {"RecLL", "LL", []int{4, 9}, 1},
	{"RecMix", "L", []int{4}, 1}, {"RecMix", "E", []int{4}, 1}, {"RecMix", "M", []int{5}, 5}, {"RecH", "L", []int{4}, 1},
	// structs held by value all the way down: nothing on the path is a pointer
	{"RecBV", "M", []int{5}, 5}, {"RecBV", "L", []int{4}, 1}, {"RecBV", "ML", []int{5, 14}, 9},
}

func buildBomb(bs bombShape, depth, pad int) []byte {
	sd := c15Shapes[bs.typ][bs.shape]
	var out []byte
	var sites []int
	for i := 0; i < depth; i++ {
		for _, o := range bs.countOff {
			sites = append(sites, len(out)+o)
		}
		out = append(out, sd.prefix...)
	}
	out = append(out, make([]byte, pad)...) // zeros: empty structs, so later "elements" even parse
	for _, s := range sites {
		rem := len(out) - s - 4
		binary.BigEndian.PutUint32(out[s:], uint32(rem/bs.minEntry))
	}
	return out
}

type c05Case struct {
	S     *core.StructSpec `json:"s"`
	Base  []byte           `json:"base,omitempty"`  // a well-formed message for S
	Other []byte           `json:"other,omitempty"` // another message (splices)
	Muts  []mutation       `json:"muts,omitempty"`
	Exact []byte           `json:"exact,omitempty"` // replay of one exact input
	All   bool             `json:"all,omitempty"`   // also enumerate every prefix and every site corruption
	Bomb  *c05Bomb         `json:"bomb,omitempty"`  // a nested count bomb instead of mutations
	Scale *c05Scale        `json:"scale,omitempty"` // a time-scaling measurement instead of mutations
	// Deep: a message for a curated recursive type nested by a drawn mixture of structs, lists, sets
	// and maps, to a depth around and beyond the decoder's bound, whole or cut to Cut/16 of its length
	Deep *c15Case `json:"deep,omitempty"`
	Cut  int      `json:"cut,omitempty"`
}

type c05Bomb struct {
	Shape int `json:"shape"`
	Depth int `json:"depth"`
	Pad   int `json:"pad"`
}

func c05Cfg() core.GenCfg {
	c := c01Cfg()
	c.Huge = false // every base message is mutated hundreds of times
	c.MaxBytes = 1024
	c.RequiredBias = 10
	return c
}

func genC05(t *rapid.T) c05Case {
	if rapid.IntRange(0, 1<<20).Draw(t, "scale")%10 == 9 {
		return c05Case{Scale: &c05Scale{Family: rapid.IntRange(0, len(scaleFamilies)-1).Draw(t, "family"), Trunc: rapid.SampledFrom([]int{0, 0, 0, 1, 3, 4, 6, 7}).Draw(t, "trunc")}}
	}
	if rapid.IntRange(0, 11).Draw(t, "bomb") == 0 {
		b := &c05Bomb{Shape: rapid.IntRange(0, len(c05Bombs)-1).Draw(t, "bombshape"), Depth: rapid.SampledFrom([]int{2, 3, 5, 10, 40, 100, 200, 300}).Draw(t, "bombdepth"),
			Pad: rapid.SampledFrom([]int{0, 16, 256, 2048, 8192, 30000}).Draw(t, "bombpad")}
		return c05Case{S: core.LookupSpec(c05Bombs[b.Shape].typ), Bomb: b}
	}
	if rapid.IntRange(0, 24).Draw(t, "deep") == 0 {
		d := genC15(t)
		d.Width = 0
		switch m := rapid.IntRange(0, 5).Draw(t, "deepband"); {
		case m < 3 || d.Depth > 3000:
			// every residue of the decoder's per-level accounting occurs among consecutive depths
			d.Depth = rapid.IntRange(900, 2600).Draw(t, "deepdepth")
		case m == 3:
			d.Depth = rapid.IntRange(30, 70).Draw(t, "deepshallow")
		}
		if d.UnknownAt > d.Depth {
			d.UnknownAt = d.Depth
		}
		return c05Case{S: core.LookupSpec(d.Type), Deep: &d, Cut: rapid.SampledFrom([]int{0, 0, 0, 0, 3, 8, 9, 13, 15}).Draw(t, "deepcut")}
	}
	cfg := c05Cfg()
	tv := genTV(cfg)(t)
	c := c05Case{S: tv.S}
	if rapid.Bool().Draw(t, "edited") {
		c.Base, _ = genWireMsg(t, tv.S, tv.V, fullEdit)
	} else {
		c.Base = core.RefEncode(tv.S, tv.V)
	}
	c.All = len(c.Base) <= 160 || rapid.IntRange(0, 9).Draw(t, "all") == 0
	if rapid.IntRange(0, 3).Draw(t, "withother") == 0 {
		v2 := core.GenStructVal(t, cfg, tv.S)
		c.Other = core.RefEncode(tv.S, v2)
	}
	n := rapid.IntRange(1, 10).Draw(t, "nmut")
	for i := 0; i < n; i++ {
		k := rapid.SampledFrom([]string{"prefix", "byte", "byte", "len", "len", "len", "splice", "insert", "delete", "random"}).Draw(t, "mk")
		m := mutation{Kind: k, Pos: rapid.IntRange(0, 1<<20).Draw(t, "mp")}
		switch k {
		case "byte", "insert":
			if rapid.IntRange(0, 4).Draw(t, "anybyte") == 0 {
				m.Val = int64(rapid.IntRange(0, 255).Draw(t, "mvany"))
			} else {
				m.Val = int64(rapid.SampledFrom(hostileTypeCodes).Draw(t, "mv"))
			}
		case "len":
			m.Val = int64(rapid.IntRange(0, len(lenVals)-1).Draw(t, "mv"))
		case "random":
			m.Val = int64(rapid.IntRange(0, 1<<30).Draw(t, "mv"))
		}
		c.Muts = append(c.Muts, m)
	}
	return c
}

var hostileTypeCodes = []byte{0, 1, 2, 3, 4, 5, 6, 7, 8, 9, 10, 11, 12, 13, 14, 15, 16, 17, 0x7f, 0x80, 0x81, 0xf0, 0xfd, 0xfe, 0xff}

var allBytes = func() []byte {
	b := make([]byte, 256)
	for i := range b {
		b[i] = byte(i)
	}
	return b
}()

var lenVals = []string{"-1", "min", "max", "2^30", "2^24", "remaining", "remaining+1", "remaining/min+1", "0", "65536", "256"}

// sites of a message: offsets of 4-byte length/count fields and of type-code bytes.
type site struct {
	off    int
	minElt int // for counts: minimal wire size of one element/entry; 1 for string lengths
}

func collectSites(b []byte) (lens []site, types []int) {
	tree, _, err := core.ParseStruct(b, 1<<20)
	if err != nil {
		return nil, nil
	}
	var walk func(n *core.WNode)
	walk = func(n *core.WNode) {
		switch n.T {
		case core.WString:
			lens = append(lens, site{n.Off, 1})
		case core.WStruct:
			for i := range n.Fields {
				types = append(types, n.Fields[i].Off)
				walk(&n.Fields[i].V)
			}
		case core.WList, core.WSet:
			types = append(types, n.Off)
			lens = append(lens, site{n.Off + 1, 1})
			for i := range n.Elems {
				walk(&n.Elems[i])
			}
		case core.WMap:
			types = append(types, n.Off, n.Off+1)
			lens = append(lens, site{n.Off + 2, 2})
			for i := range n.Keys {
				walk(&n.Keys[i])
				walk(&n.Vals[i])
			}
		}
	}
	walk(&tree)
	return
}

func lenValue(which int, remaining, minElt int) uint32 {
	switch lenVals[which] {
	case "-1":
		return 0xffffffff
	case "min":
		return 0x80000000
	case "max":
		return 0x7fffffff
	case "2^30":
		return 1 << 30
	case "2^24":
		return 1 << 24
	case "remaining":
		return uint32(remaining)
	case "remaining+1":
		return uint32(remaining + 1)
	case "remaining/min+1":
		return uint32(remaining/minElt + 1)
	case "65536":
		return 65536
	case "256":
		return 256
	}
	return 0
}

// allocation bound: 1 MiB + K(T) * len(input)
func allocK(s *core.StructSpec) int {
	ratio := 1
	s.WalkTypes(func(t *core.TypeSpec) {
		var per int
		switch t.Kind {
		case core.KList, core.KSet:
			per = goSizeOf(t.Elem) / max(1, minWire(t.Elem))
		case core.KMap:
			per = 2 * (goSizeOf(t.Key) + goSizeOf(t.Elem) + 16) / max(1, minWire(t.Key)+minWire(t.Elem))
		}
		if per > ratio {
			ratio = per
		}
	})
	return 64 + 16*ratio
}

// allocBounds: T1 is what a decoder may allocate for an input of n bytes reaching the given
// nesting depth: a constant, one pooled 8 KiB presence set per level (first time only), the
// error text wrapped once per level, and K bytes per input byte (K covers the Go size of the
// cheapest-on-the-wire element, with 16x slack). T2 adds what the open known finding F20 explains:
// count*size(element) reserved for every container entered (the model sums it up, Verdict.Prealloc),
// each count being bounded only by the bytes remaining at its own level. Anything above T2 is a
// different defect.
func allocBounds(k, n, depth int, prealloc uint64) (t1, t2 uint64) {
	d := uint64(depth + 1)
	t1 = 1<<20 + d*8192 + d*d*192 + uint64(k)*uint64(n)
	t2 = t1 + 3*prealloc
	return
}

func goSizeOf(t *core.TypeSpec) int {
	rt := core.GoType(t)
	sz := int(rt.Size())
	if rt.Kind() == reflect.Ptr {
		sz += int(rt.Elem().Size())
	}
	return sz
}

func minWire(t *core.TypeSpec) int {
	switch t.Kind {
	case core.KString, core.KBinary:
		return 4
	case core.KStruct:
		return 1
	case core.KList, core.KSet:
		return 5
	case core.KMap:
		return 6
	}
	return t.FixedWidth()
}

type c05Runner struct {
	w      *worker
	ms     runtime.MemStats
	ncases int
	warm   map[reflect.Type]bool
}

// one checks a single (type, input) pair.
func (r *c05Runner) one(s *core.StructSpec, in []byte, k int, what string) *Failure {
	b := core.Bind(s)
	dest := newDest(b)
	exp := core.FreshStruct(s)
	verdict := core.RefDecode(s, in, exp)
	buf := append(make([]byte, 0, len(in)), in...) // exact capacity: nothing readable behind the input
	iface := dest.Interface()
	if !r.warm[b.Type] {
		// first use builds the type's descriptors (a one-off cost per type, e.g. 8 bytes per
		// field id up to the largest): keep it out of the per-call allocation measurement
		r.warm[b.Type] = true
		if _, _, f := fDecode([]byte{0}, newDest(b).Interface()); f != nil {
			f.Msg = "first use (empty struct message): " + f.Msg
			f.Case = c05Case{S: s, Exact: []byte{0}}
			return f
		}
	}
	runtime.ReadMemStats(&r.ms)
	before := r.ms.TotalAlloc
	n, err, f := fDecode(buf, iface)
	runtime.ReadMemStats(&r.ms)
	alloc := r.ms.TotalAlloc - before
	r.ncases++
	if r.ncases%2000 == 0 {
		runtime.GC()
	}
	sub := c05Case{S: s, Exact: in}
	fail := func(f *Failure) *Failure {
		f.Msg = what + ": " + f.Msg + fmt.Sprintf(" [input %s]", hexs(in))
		f.Case = sub
		return f
	}
	if f != nil {
		return fail(f)
	}
	if t1, t2 := allocBounds(k, len(in), verdict.MaxDepth, verdict.Prealloc); alloc > t1 {
		if alloc <= t2 && verdict.MaxDepth >= 2 && os.Getenv("VERIF_REPLAY") == "" && openFinding("F20") {
			// open known finding F20 (nested counts, each bounded only by the bytes remaining at its own
			// level): excluded from the search and counted, so that the campaign goes on; the recorded
			// case is replayed by the driver and reported as KNOWN-FINDING while it reproduces
			r.w.exclude("F20")
		} else {
			f := failf("alloc-blowup", "DecodeObject allocated %d bytes for %d input bytes nested %d levels (bound %d; with the nested-count amplification of F20: %d; err=%.200v)", alloc, len(in), verdict.MaxDepth, t1, t2, err)
			if alloc <= t2 && verdict.MaxDepth >= 2 {
				f.Class = "alloc-blowup-nested-counts"
				if openFinding("F20") {
					f.Known = "F20"
				}
			}
			return fail(f)
		}
	}
	if string(buf) != string(in) {
		return fail(failf("input-modified", "DecodeObject modified its input buffer"))
	}
	if ferr := b.CheckExtras(dest.Elem()); ferr != nil {
		return fail(failf("ignored-field-touched", "%v", ferr))
	}
	label := "verdict:" + verdict.Kind.String()
	switch verdict.Kind {
	case core.VOK:
		if err != nil {
			return fail(failf("wellformed-rejected", "input begins with a well-formed message but was rejected: %v", err))
		}
	case core.VErr:
		if err == nil {
			return fail(failf("malformed-accepted", "model: %s; DecodeObject returned n=%d, err=nil", verdict.Why, n))
		}
		if len(verdict.MissingRequired) > 0 {
			if f := checkRequiredErr(err, verdict); f != nil {
				return fail(f)
			}
		}
	}
	if err == nil {
		if n < 0 || n > len(in) {
			return fail(failf("consumed-wrong", "DecodeObject returned n=%d for %d input bytes", n, len(in)))
		}
		if verdict.Kind == core.VOK || (verdict.Kind == core.VGray) {
			if n != verdict.N {
				return fail(failf("consumed-wrong", "DecodeObject returned n=%d, the top-level STOP ends at %d", n, verdict.N))
			}
			if !verdict.GrayValue {
				got := b.Lift(dest.Elem())
				if m := core.EqualStruct(s, got, exp, core.EqOpts{}, "$"); m != nil {
					return fail(failf("decoded-value-differs", "destination differs from the reference decoder (got vs want) %s", m))
				}
			}
		}
	}
	nontriv := verdict.Kind != core.VOK && (verdict.Known+verdict.Skipped >= 1 || verdict.MaxDepth >= 1)
	r.w.count(nontriv, s.Sig()+string(in), sub, label, "mut:"+what)
	return nil
}

func applyMutation(c *c05Case, m mutation, lens []site) ([]byte, string) {
	base := c.Base
	switch m.Kind {
	case "prefix":
		return base[:m.Pos%(len(base)+1)], "prefix"
	case "byte":
		if len(base) == 0 {
			return base, "byte"
		}
		out := append([]byte{}, base...)
		out[m.Pos%len(out)] = byte(m.Val)
		return out, "byte"
	case "len":
		if len(lens) == 0 {
			return base, "len-nosite"
		}
		st := lens[m.Pos%len(lens)]
		out := append([]byte{}, base...)
		binary.BigEndian.PutUint32(out[st.off:], lenValue(int(m.Val), len(base)-st.off-4, st.minElt))
		return out, "len:" + lenVals[m.Val]
	case "splice":
		o := c.Other
		if o == nil {
			o = base
		}
		a := m.Pos % (len(base) + 1)
		bb := (m.Pos / 7) % (len(o) + 1)
		return append(append([]byte{}, base[:a]...), o[bb:]...), "splice"
	case "insert":
		p := m.Pos % (len(base) + 1)
		out := append([]byte{}, base[:p]...)
		out = append(out, byte(m.Val))
		return append(out, base[p:]...), "insert"
	case "delete":
		if len(base) == 0 {
			return base, "delete"
		}
		p := m.Pos % len(base)
		return append(append([]byte{}, base[:p]...), base[p+1:]...), "delete"
	case "random":
		n := m.Pos % 96
		out := make([]byte, n)
		x := uint64(m.Val)*6364136223846793005 + 1442695040888963407
		for i := range out {
			x = x*6364136223846793005 + 1442695040888963407
			out[i] = byte(x >> 33)
			if i%3 == 0 {
				out[i] = []byte{0, 2, 3, 4, 6, 8, 10, 11, 12, 13, 14, 15}[out[i]%12]
			}
		}
		return out, "random"
	}
	return base, "none"
}

func (r *c05Runner) run(c c05Case) *Failure {
	if c.Scale != nil {
		return r.scale(*c.Scale)
	}
	k := allocK(c.S)
	if c.Exact != nil {
		return r.one(c.S, c.Exact, k, "exact")
	}
	if c.Bomb != nil {
		return r.one(c.S, buildBomb(c05Bombs[c.Bomb.Shape], c.Bomb.Depth, c.Bomb.Pad), k, "count-bomb")
	}
	if c.Deep != nil {
		msg, _ := buildDeep(*c.Deep)
		what := "deep"
		if c.Cut > 0 {
			msg = msg[:len(msg)*c.Cut/16]
			what = "deep-cut"
		}
		return r.one(core.LookupSpec(c.Deep.Type), msg, k, what)
	}
	lens, types := collectSites(c.Base)
	for _, m := range c.Muts {
		in, what := applyMutation(&c, m, lens)
		if f := r.one(c.S, in, k, what); f != nil {
			return f
		}
	}
	if !c.All {
		return nil
	}
	for l := 0; l <= len(c.Base); l++ {
		if f := r.one(c.S, c.Base[:l], k, "prefix"); f != nil {
			return f
		}
	}
	for _, st := range lens {
		for vi := range lenVals {
			out := append([]byte{}, c.Base...)
			binary.BigEndian.PutUint32(out[st.off:], lenValue(vi, len(c.Base)-st.off-4, st.minElt))
			if f := r.one(c.S, out, k, "len:"+lenVals[vi]); f != nil {
				return f
			}
		}
	}
	for ti, off := range types {
		// every byte value at the first type-code positions (an implementation may know codes of its
		// own beyond Thrift's, such as a pseudo type for enums), the usual suspects at the others
		codes := hostileTypeCodes
		if ti < 3 {
			codes = allBytes
		}
		for _, code := range codes {
			if c.Base[off] == code {
				continue
			}
			out := append([]byte{}, c.Base...)
			out[off] = code
			if f := r.one(c.S, out, k, "typecode"); f != nil {
				return f
			}
		}
	}
	return nil
}

func TestC05(t *testing.T) {
	w := newWorker(t, "C05")
	debug.SetGCPercent(-1) // GC off during calls: TotalAlloc deltas are exact; collected manually
	r := &c05Runner{w: w, warm: map[reflect.Type]bool{}}
	drive(t, caseRunner[c05Case]{w: w, gen: genC05, run: r.run, journalled: true})
}
