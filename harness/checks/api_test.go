package checks

// Thin wrappers around the public frugal API (the only observation point).

import (
	"bytes"
	"errors"
	"fmt"
	"reflect"
	"unsafe"

	"github.com/cloudwego/frugal"
	gthrift "github.com/cloudwego/gopkg/protocol/thrift"

	"verif/harness/core"
)

func fSize(v interface{}) (n int, f *Failure) {
	f = safely("EncodedSize", func() { n = frugal.EncodedSize(v) })
	return
}

func fEncode(buf []byte, v interface{}) (n int, err error, f *Failure) {
	f = safely("EncodeObject", func() { n, err = frugal.EncodeObject(buf, nil, v) })
	return
}

func fDecode(b []byte, v interface{}) (n int, err error, f *Failure) {
	f = safely("DecodeObject", func() { n, err = frugal.DecodeObject(b, v) })
	return
}

// protoErrType extracts the ProtocolException type id (or -1).
func protoErrType(err error) int32 {
	var pe *gthrift.ProtocolException
	if errors.As(err, &pe) {
		return pe.TypeId()
	}
	return -1
}

const (
	peInvalidData = int32(gthrift.INVALID_DATA)
	peDepthLimit  = int32(gthrift.DEPTH_LIMIT)
)

// TV is a (type, value) case.
type TV struct {
	S *core.StructSpec `json:"s"`
	V *core.SVal       `json:"v"`
}

// newDest allocates a fresh destination of the bound type: zero, plus declared
// defaults when the type has an initialiser.
func newDest(b *core.Bound) reflect.Value {
	p := b.New()
	if b.Spec.HasInit {
		p.Interface().(interface{ InitDefault() }).InitDefault()
	}
	b.SetExtras(p.Elem())
	return p
}

// encodeExact runs EncodedSize + EncodeObject into an exactly sized buffer.
func encodeExact(iface interface{}) (out []byte, f *Failure) {
	s, f := fSize(iface)
	if f != nil {
		return nil, f
	}
	if s < 0 || s > 64<<20 {
		return nil, failf("size-absurd", "EncodedSize returned %d", s)
	}
	buf := make([]byte, s)
	n, err, f := fEncode(buf, iface)
	if f != nil {
		return nil, f
	}
	if err != nil {
		return nil, failf("encode-error", "EncodeObject with a buffer of EncodedSize()=%d bytes failed: %v", s, err)
	}
	if n != s {
		return nil, failf("size-mismatch", "EncodedSize=%d but EncodeObject wrote %d", s, n)
	}
	return buf[:n], nil
}

func hexs(b []byte) string {
	if len(b) > 256 {
		return fmt.Sprintf("%x…(%d bytes)", b[:256], len(b))
	}
	return fmt.Sprintf("%x", b)
}

// matchesRef reports whether out equals, up to map-entry order, one of the reference
// encodings of (s, v) (several when float "equal to default" is ambiguous).
func matchesRef(out []byte, s *core.StructSpec, v *core.SVal) (bool, []byte, error) {
	co, err := core.Canon(out)
	if err != nil {
		return false, nil, err
	}
	alts := core.RefEncodeAll(s, v, 10)
	if alts == nil {
		return true, nil, nil // too many ambiguous cases to enumerate: not decided
	}
	for _, a := range alts {
		ca, _ := core.Canon(a)
		if bytes.Equal(ca, co) {
			return true, alts[0], nil
		}
	}
	return false, alts[0], nil
}

// fSizeRaw calls EncodedSize without catching its panic (C13 inspects the panic value).
func fSizeRaw(v interface{}) (int, *Failure) { return frugal.EncodedSize(v), nil }

func strData(s string) *byte   { return unsafe.StringData(s) }
func sliceData(b []byte) *byte { return unsafe.SliceData(b) }
func holderBytes(h reflect.Value) []byte {
	if !h.CanAddr() {
		// a by-value struct inside a map value: read through an addressable copy
		c := reflect.New(h.Type()).Elem()
		c.Set(h)
		h = c
	}
	return *(*[]byte)(unsafe.Pointer(h.UnsafeAddr()))
}
