package checks

import (
	"encoding/json"
	"fmt"
	"testing"

	"pgregory.net/rapid"

	"verif/harness/core"
)

// C11 — unknown fields are preserved byte-for-byte through decode and re-encode.

type c11Case struct {
	T   *core.StructSpec `json:"t"`           // older reader type
	N   *core.StructSpec `json:"n,omitempty"` // newer writer schema (mode A)
	V   *core.SVal       `json:"v,omitempty"` // value of N
	Msg []byte           `json:"msg"`         // the message on the wire
}

func cloneSpec(s *core.StructSpec) *core.StructSpec {
	b, _ := json.Marshal(s)
	o := &core.StructSpec{}
	if err := json.Unmarshal(b, o); err != nil {
		panic(err)
	}
	return o
}

// evolve adds fields to (and retypes optional/default fields of) every struct of n.
func evolve(t *rapid.T, n *core.StructSpec, stats map[string]int) {
	seen := map[*core.StructSpec]bool{}
	var ws func(s *core.StructSpec)
	var wt func(ts *core.TypeSpec)
	wt = func(ts *core.TypeSpec) {
		switch ts.Kind {
		case core.KList, core.KSet:
			wt(ts.Elem)
		case core.KMap:
			wt(ts.Key)
			wt(ts.Elem)
		case core.KStruct:
			if ts.Struct != nil {
				ws(ts.Struct)
			}
		}
	}
	ws = func(s *core.StructSpec) {
		if seen[s] {
			return
		}
		seen[s] = true
		for _, f := range s.Fields {
			wt(f.Type)
		}
		if len(s.Fields) > 0 && rapid.IntRange(0, 3).Draw(t, "retype") == 0 {
			f := s.Fields[rapid.IntRange(0, len(s.Fields)-1).Draw(t, "retypef")]
			if f.Req != core.Required {
				for try := 0; try < 5; try++ {
					nt := foreignTypes[rapid.IntRange(0, len(foreignTypes)-1).Draw(t, "retypet")]
					if nt.WT() != f.Type.WT() {
						f.Type, f.GoPtr, f.NoCopy = nt, false, false
						stats["retyped"]++
						break
					}
				}
			}
		}
		k := rapid.IntRange(0, 3).Draw(t, "nadd")
		for i := 0; i < k; i++ {
			id := uint16(rapid.IntRange(0, 400).Draw(t, "addid"))
			if s.ByID(id) != nil {
				continue
			}
			nt := foreignTypes[rapid.IntRange(0, len(foreignTypes)-1).Draw(t, "addt")]
			s.Fields = append(s.Fields, &core.FieldSpec{Name: fmt.Sprintf("New%d_%d", i, id), ID: id,
				Req: core.Req(rapid.SampledFrom([]int{0, 0, 2}).Draw(t, "addreq")), Type: nt})
			stats["added"]++
		}
	}
	ws(n)
}

func genC11(t *rapid.T) c11Case {
	if rapid.IntRange(0, 2).Draw(t, "mode") == 0 {
		// mode B: any type (named holders included), wire edits
		cfg := c01Cfg()
		cfg.Huge = false
		cfg.MaxBytes = 2048
		tv := genTV(cfg)(t)
		msg, _ := genWireMsg(t, tv.S, tv.V, wireEditCfg{Shuffle: true, Insert: true, Retype: true, Renumber: true, MaxInsert: 3})
		return c11Case{T: tv.S, Msg: msg}
	}
	cfg := core.GenCfg{HolderAlways: true, MaxBytes: 2048, RequiredBias: 8, MaxFields: 6}
	T := core.GenStruct(t, cfg)
	N := cloneSpec(T)
	stats := map[string]int{}
	evolve(t, N, stats)
	v := core.GenStructVal(t, cfg, N)
	enc := core.RefEncode(N, v)
	tree, _, err := core.ParseStruct(enc, 1<<20)
	if err != nil {
		panic(err)
	}
	editStruct(t, &tree, wireEditCfg{Shuffle: true}, 0, stats)
	return c11Case{T: T, N: N, V: v, Msg: tree.Emit(nil, false)}
}

func runC11(w *worker) func(c c11Case) *Failure {
	return func(c c11Case) *Failure {
		b := core.Bind(c.T)
		dest := newDest(b)
		exp := core.FreshStruct(c.T)
		verdict := core.RefDecode(c.T, c.Msg, exp)
		in := append([]byte{}, c.Msg...)
		n, err, f := fDecode(in, dest.Interface())
		if f != nil {
			return f
		}
		if verdict.Kind != core.VOK {
			w.count(false, "", nil, "verdict:"+verdict.Kind.String())
			if verdict.Kind == core.VErr && err == nil {
				return failf("malformed-accepted", "model: %s", verdict.Why)
			}
			return nil
		}
		if err != nil {
			return failf("wellformed-rejected", "well-formed message rejected: %v; msg %s", err, hexs(c.Msg))
		}
		if n != verdict.N {
			return failf("consumed-wrong", "n=%d want %d", n, verdict.N)
		}
		got := b.Lift(dest.Elem())
		if !verdict.GrayValue {
			// (1) holders byte for byte and in message order; known fields as if the unknown ones were absent
			if m := core.EqualStruct(c.T, got, exp, core.EqOpts{}, "$"); m != nil {
				return failf("holder-or-value-differs", "after decode (got vs want) %s; msg %s", m, hexs(c.Msg))
			}
		}
		// (2) re-encode: size counts the retained bytes, output re-emits them inside the same struct.
		// The intermediary's receive buffer is reused for the next message in the meantime (unless the
		// type declares nocopy fields somewhere): what was retained must not live in it
		if !c.T.AnyNoCopy() {
			for i := range in {
				in[i] = 0xEE
			}
		}
		out, f := encodeExact(dest.Interface())
		if f != nil {
			return f
		}
		ok, want, perr := matchesRef(out, c.T, got)
		if perr != nil {
			return failf("output-malformed", "re-encoding does not parse: %v; %s", perr, hexs(out))
		}
		if !ok {
			return failf("reencode-differs", "re-encoding differs from known fields + retained bytes\n got: %s\nwant: %s", hexs(out), hexs(want))
		}
		labels := []string{}
		if verdict.SkippedWithHolder > 0 {
			labels = append(labels, "retained-unknown-fields")
		}
		if verdict.Skipped > verdict.SkippedWithHolder {
			labels = append(labels, "dropped-unknown-fields(no holder)")
		}
		// (3) second hop with the writer's schema
		if c.N != nil {
			labels = append(labels, "second-hop")
			normal := core.FreshStruct(c.N)
			v1 := core.RefDecode(c.N, core.RefEncode(c.N, c.V), normal)
			hop := core.FreshStruct(c.N)
			v2 := core.RefDecode(c.N, out, hop)
			if v1.Kind == core.VOK {
				if v2.Kind == core.VErr && len(v2.MissingRequired) > 0 {
					// the intermediary turned a nil non-optional struct into an empty one, which now
					// lacks its own required fields: normalisation, not loss of unknown fields
					w.label("second-hop-required-after-normalisation")
				} else if v2.Kind != core.VOK {
					return failf("second-hop-rejected", "the writer's schema cannot read the intermediary's re-encoding: %s; %s", v2.Why, hexs(out))
				}
				if !v2.GrayValue && v2.Kind == core.VOK {
					if m := core.EqualStruct(c.N, hop, normal, core.EqOpts{IgnoreHolder: true, NilEmptySame: true, NilStructFresh: true}, "$"); m != nil {
						return failf("second-hop-lost-data", "value after the old-schema intermediary differs (got vs want) %s\n msg: %s\n re-encoded: %s", m, hexs(c.Msg), hexs(out))
					}
				}
			}
		}
		nontriv := verdict.SkippedWithHolder >= 2 || (verdict.SkippedWithHolder >= 1 && verdict.MaxDepth >= 1)
		w.count(nontriv, c.T.Sig()+string(c.Msg), c, labels...)
		return nil
	}
}

func TestC11(t *testing.T) {
	w := newWorker(t, "C11")
	drive(t, caseRunner[c11Case]{w: w, gen: genC11, run: runC11(w), journalled: true})
}
