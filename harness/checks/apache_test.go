package checks

// apache/thrift v0.13.0 TBinaryProtocol as an independent reader and writer of the
// schema-less wire tree (second leg of C02, and the model self-check).

import (
	"fmt"
	"math"

	athrift "github.com/apache/thrift/lib/go/thrift"

	"verif/harness/core"
)

// apacheRead parses one struct with apache's TBinaryProtocol into a wire tree and
// returns the number of bytes consumed.
func apacheRead(b []byte) (n core.WNode, used int, err error) {
	defer func() {
		if r := recover(); r != nil {
			err = fmt.Errorf("apache reader panicked: %v", r)
		}
	}()
	mb := athrift.NewTMemoryBuffer()
	mb.Write(b)
	p := athrift.NewTBinaryProtocol(mb, true, true)
	n, err = apacheReadStruct(p, 0)
	used = len(b) - mb.Len()
	return
}

func apacheReadStruct(p *athrift.TBinaryProtocol, depth int) (core.WNode, error) {
	n := core.WNode{T: core.WStruct}
	if depth > 2000 {
		return n, fmt.Errorf("too deep")
	}
	if _, err := p.ReadStructBegin(); err != nil {
		return n, err
	}
	for {
		_, tp, id, err := p.ReadFieldBegin()
		if err != nil {
			return n, err
		}
		if tp == athrift.STOP {
			break
		}
		v, err := apacheReadValue(p, byte(tp), depth+1)
		if err != nil {
			return n, err
		}
		n.Fields = append(n.Fields, core.WField{ID: uint16(id), T: byte(tp), V: v})
		if err := p.ReadFieldEnd(); err != nil {
			return n, err
		}
	}
	return n, p.ReadStructEnd()
}

func apacheReadValue(p *athrift.TBinaryProtocol, t byte, depth int) (core.WNode, error) {
	n := core.WNode{T: t}
	switch t {
	case core.WBool:
		v, err := p.ReadBool()
		if v {
			n.U = 1
		}
		return n, err
	case core.WByte:
		v, err := p.ReadByte()
		n.U = uint64(uint8(v))
		return n, err
	case core.WI16:
		v, err := p.ReadI16()
		n.U = uint64(uint16(v))
		return n, err
	case core.WI32:
		v, err := p.ReadI32()
		n.U = uint64(uint32(v))
		return n, err
	case core.WI64:
		v, err := p.ReadI64()
		n.U = uint64(v)
		return n, err
	case core.WDouble:
		v, err := p.ReadDouble()
		n.U = math.Float64bits(v)
		return n, err
	case core.WString:
		v, err := p.ReadBinary()
		n.S = v
		if n.S == nil {
			n.S = []byte{}
		}
		return n, err
	case core.WStruct:
		return apacheReadStruct(p, depth)
	case core.WList, core.WSet:
		var et athrift.TType
		var sz int
		var err error
		if t == core.WList {
			et, sz, err = p.ReadListBegin()
		} else {
			et, sz, err = p.ReadSetBegin()
		}
		if err != nil {
			return n, err
		}
		n.ET = byte(et)
		for i := 0; i < sz; i++ {
			e, err := apacheReadValue(p, byte(et), depth+1)
			if err != nil {
				return n, err
			}
			n.Elems = append(n.Elems, e)
		}
		return n, nil
	case core.WMap:
		kt, vt, sz, err := p.ReadMapBegin()
		if err != nil {
			return n, err
		}
		n.KT, n.VT = byte(kt), byte(vt)
		for i := 0; i < sz; i++ {
			k, err := apacheReadValue(p, byte(kt), depth+1)
			if err != nil {
				return n, err
			}
			v, err := apacheReadValue(p, byte(vt), depth+1)
			if err != nil {
				return n, err
			}
			n.Keys = append(n.Keys, k)
			n.Vals = append(n.Vals, v)
		}
		return n, nil
	}
	return n, fmt.Errorf("apache: unexpected type %d", t)
}

// apacheWrite serialises a wire tree with apache's TBinaryProtocol.
func apacheWrite(n *core.WNode) ([]byte, error) {
	mb := athrift.NewTMemoryBuffer()
	p := athrift.NewTBinaryProtocol(mb, true, true)
	if err := apacheWriteValue(p, n); err != nil {
		return nil, err
	}
	return mb.Bytes(), nil
}

func apacheWriteValue(p *athrift.TBinaryProtocol, n *core.WNode) error {
	switch n.T {
	case core.WBool:
		return p.WriteBool(n.U != 0)
	case core.WByte:
		return p.WriteByte(int8(n.U))
	case core.WI16:
		return p.WriteI16(int16(n.U))
	case core.WI32:
		return p.WriteI32(int32(n.U))
	case core.WI64:
		return p.WriteI64(int64(n.U))
	case core.WDouble:
		return p.WriteDouble(math.Float64frombits(n.U))
	case core.WString:
		return p.WriteBinary(n.S)
	case core.WStruct:
		p.WriteStructBegin("")
		for i := range n.Fields {
			f := &n.Fields[i]
			if err := p.WriteFieldBegin("", athrift.TType(f.T), int16(f.ID)); err != nil {
				return err
			}
			if err := apacheWriteValue(p, &f.V); err != nil {
				return err
			}
			p.WriteFieldEnd()
		}
		if err := p.WriteFieldStop(); err != nil {
			return err
		}
		return p.WriteStructEnd()
	case core.WList:
		p.WriteListBegin(athrift.TType(n.ET), len(n.Elems))
		for i := range n.Elems {
			if err := apacheWriteValue(p, &n.Elems[i]); err != nil {
				return err
			}
		}
		return p.WriteListEnd()
	case core.WSet:
		p.WriteSetBegin(athrift.TType(n.ET), len(n.Elems))
		for i := range n.Elems {
			if err := apacheWriteValue(p, &n.Elems[i]); err != nil {
				return err
			}
		}
		return p.WriteSetEnd()
	case core.WMap:
		p.WriteMapBegin(athrift.TType(n.KT), athrift.TType(n.VT), len(n.Keys))
		for i := range n.Keys {
			if err := apacheWriteValue(p, &n.Keys[i]); err != nil {
				return err
			}
			if err := apacheWriteValue(p, &n.Vals[i]); err != nil {
				return err
			}
		}
		return p.WriteMapEnd()
	}
	return fmt.Errorf("apache write: bad type %d", n.T)
}
