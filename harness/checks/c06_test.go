package checks

import (
	"fmt"
	"reflect"
	"runtime"
	"sort"
	"testing"
	"unsafe"

	"pgregory.net/rapid"

	"verif/harness/core"
)

// C06 — decoded objects own their memory: aligned, disjoint, GC-safe, not aliasing input.

type c06Step struct {
	Op     string           `json:"op"` // decode, clobber, gc, drop, garbage
	S      *core.StructSpec `json:"s,omitempty"`
	Msg    []byte           `json:"msg,omitempty"`
	Target int              `json:"target,omitempty"`
	// Msg2: another message for the same type; op "redecode" decodes it into the destination of an
	// earlier decode step, of which the caller has kept a (shallow) copy
	Msg2 []byte `json:"msg2,omitempty"`
}

type c06Case struct {
	Steps []c06Step `json:"steps"`
}

func c06Cfg() core.GenCfg {
	// fields declared nocopy are part of the domain: their own bytes may be views of the input
	// (C14's subject) and are left out of the extents and, once the input has been overwritten,
	// of the comparison; everything else in the same object must still own its memory
	return core.GenCfg{Holder: true, MaxFields: 7, MaxNest: 2, MaxBytes: 6000, ContainerMax: 90, NamedRefs: namedRefs(), RequiredBias: 5, BigIDs: false, NoCopy: true}
}

func genC06(t *rapid.T) c06Case {
	var c c06Case
	cfg := c06Cfg()
	n := rapid.IntRange(4, 14).Draw(t, "nsteps")
	var pool []*core.StructSpec
	for i := 0; i < n; i++ {
		op := rapid.SampledFrom([]string{"decode", "decode", "decode", "clobber", "gc", "gc", "drop", "garbage", "burst", "redecode"}).Draw(t, "op")
		st := c06Step{Op: op, Target: rapid.IntRange(0, 7).Draw(t, "target")}
		if op == "decode" {
			var s *core.StructSpec
			if len(pool) > 0 && rapid.Bool().Draw(t, "reuse") {
				s = pool[rapid.IntRange(0, len(pool)-1).Draw(t, "which")]
			} else {
				s = genTV(cfg)(t).S
				pool = append(pool, s)
			}
			v := core.GenStructVal(t, cfg, s)
			st.S = s
			st.Msg, _ = genWireMsg(t, s, v, wireEditCfg{Shuffle: true, Insert: true, Dup: true, MaxInsert: 2})
			if rapid.Bool().Draw(t, "withmsg2") {
				v2 := core.GenStructVal(t, cfg, s)
				st.Msg2, _ = genWireMsg(t, s, v2, wireEditCfg{Shuffle: true, Insert: true, MaxInsert: 2})
			}
			if rapid.IntRange(0, 5).Draw(t, "cut") == 0 && len(st.Msg) > 1 {
				// a message that ends early, at the end of some value inside it or anywhere: the call fails
				// after it has stored part of the object
				if cuts := boundaryCuts(st.Msg); len(cuts) > 0 && rapid.Bool().Draw(t, "cutboundary") {
					st.Msg = st.Msg[:rapid.SampledFrom(cuts).Draw(t, "cutat")]
				} else {
					st.Msg = st.Msg[:rapid.IntRange(1, len(st.Msg)-1).Draw(t, "cutany")]
				}
			}
		}
		c.Steps = append(c.Steps, st)
	}
	// make sure the history ends with: overwrite inputs, further decode, collections
	c.Steps = append(c.Steps, c06Step{Op: "burst", Target: rapid.IntRange(0, 7).Draw(t, "bursttarget")}, c06Step{Op: "clobber", Target: 0}, c06Step{Op: "garbage"}, c06Step{Op: "gc"}, c06Step{Op: "gc"})
	return c
}

type extent struct {
	lo, hi uintptr
	align  uintptr
	what   string
	ptrs   bool // the memory holds pointers
}

// collectExtents lists the memory a decode created for the object: pointees, slice
// backing arrays up to capacity, string bytes.
func collectExtents(s *core.StructSpec, rv reflect.Value, path string, out *[]extent) {
	b := core.Bind(s)
	if !rv.CanAddr() {
		c := reflect.New(rv.Type()).Elem()
		c.Set(rv)
		rv = c
	}
	var val func(ts *core.TypeSpec, rv reflect.Value, p string)
	val = func(ts *core.TypeSpec, rv reflect.Value, p string) {
		switch ts.Kind {
		case core.KString:
			str := rv.String()
			if len(str) > 0 {
				a := uintptr(unsafe.Pointer(unsafe.StringData(str)))
				*out = append(*out, extent{a, a + uintptr(len(str)), 1, p + ":string", false})
			}
		case core.KBinary:
			if !rv.IsNil() && rv.Cap() > 0 {
				a := rv.Pointer()
				*out = append(*out, extent{a, a + uintptr(rv.Cap()), 1, p + ":binary", false})
			}
		case core.KList, core.KSet:
			if rv.IsNil() {
				return
			}
			et := rv.Type().Elem()
			if rv.Cap() > 0 && et.Size() > 0 {
				a := rv.Pointer()
				*out = append(*out, extent{a, a + uintptr(rv.Cap())*et.Size(), uintptr(et.Align()), p + ":slice", hasPointers(et)})
			}
			for i := 0; i < rv.Len(); i++ {
				val(ts.Elem, rv.Index(i), fmt.Sprintf("%s[%d]", p, i))
			}
		case core.KMap:
			it := rv.MapRange()
			for it.Next() {
				val(ts.Key, it.Key(), p+"{k}")
				val(ts.Elem, it.Value(), p+"{v}")
			}
		case core.KStruct:
			if ts.Ptr {
				if rv.IsNil() {
					return
				}
				st := rv.Type().Elem()
				if st.Size() > 0 {
					a := rv.Pointer()
					*out = append(*out, extent{a, a + st.Size(), uintptr(st.Align()), p + ":*struct", hasPointers(st)})
				}
				collectExtents(ts.SS(), rv.Elem(), p, out)
				return
			}
			collectExtents(ts.SS(), rv, p, out)
		}
	}
	for _, f := range s.Fields {
		fv := rv.Field(b.FieldIndex(f.ID))
		p := path + "." + f.Name
		if f.GoPtr {
			if fv.IsNil() {
				continue
			}
			et := fv.Type().Elem()
			a := fv.Pointer()
			*out = append(*out, extent{a, a + et.Size(), uintptr(et.Align()), p + ":*scalar", hasPointers(et)})
			fv = fv.Elem()
		}
		if f.NoCopy {
			continue // a view of the input by declaration
		}
		if f.Type.Kind == core.KString && s.HasInit {
			// a string equal to its declared default is the initialiser's literal (static data shared
			// by every instance), not memory the decoder created for a transmitted value
			if d, ok := s.Defaults[f.ID]; ok && string(d.S) == fv.String() {
				continue
			}
		}
		val(f.Type, fv, p)
	}
	if h := b.HolderIndex(); h >= 0 {
		hb := holderBytes(rv.Field(h))
		if cap(hb) > 0 {
			a := uintptr(unsafe.Pointer(unsafe.SliceData(hb)))
			*out = append(*out, extent{a, a + uintptr(cap(hb)), 1, path + "._unknownFields", false})
		}
	}
}

func hasPointers(t reflect.Type) bool {
	switch t.Kind() {
	case reflect.Ptr, reflect.Map, reflect.Slice, reflect.String, reflect.Interface, reflect.Chan, reflect.Func, reflect.UnsafePointer:
		return true
	case reflect.Struct:
		for i := 0; i < t.NumField(); i++ {
			if hasPointers(t.Field(i).Type) {
				return true
			}
		}
	case reflect.Array:
		return hasPointers(t.Elem())
	}
	return false
}

type liveObj struct {
	spec *core.StructSpec
	b    *core.Bound
	dest reflect.Value
	in   []byte
	snap *core.SVal
	ext  []extent
	step int
	// the input has been overwritten: nocopy fields no longer count
	clobbered bool
	// the decode failed: only the stability of what it left behind is checked
	failed bool
	// the object is the result of two decodes into one destination (not a function of one message)
	twice bool
}

func overlapIn(ext []extent) (extent, extent, bool) {
	sort.Slice(ext, func(i, j int) bool { return ext[i].lo < ext[j].lo })
	for i := 1; i < len(ext); i++ {
		if ext[i].lo < ext[i-1].hi {
			return ext[i-1], ext[i], true
		}
	}
	return extent{}, extent{}, false
}

var c06Sink [][]byte

func runC06(w *worker) func(c c06Case) *Failure {
	return func(c c06Case) *Failure {
		var live []*liveObj
		alignKinds := map[uintptr]bool{}
		ptrBearing := false
		nExt := 0
		clobberedThenGC := false
		clobbered := false
		failedKept := 0
		redecoded := 0
		check := func(stepNo int, what string) *Failure {
			var all []extent
			for _, o := range live {
				var got *core.SVal
				if f := safely("reading a decoded object", func() { got = o.b.Lift(o.dest.Elem()) }); f != nil {
					f.Msg = fmt.Sprintf("step %d (%s): object decoded at step %d: %s", stepNo, what, o.step, f.Msg)
					return f
				}
				if m := core.EqualStruct(o.spec, got, o.snap, core.EqOpts{SkipNoCopy: o.clobbered}, "$"); m != nil {
					return failf("object-changed", "step %d (%s): the object decoded at step %d changed: %s", stepNo, what, o.step, m)
				}
				all = append(all, o.ext...)
			}
			if a, b, bad := overlapIn(all); bad {
				return failf("memory-shared", "step %d (%s): two pieces of decoded memory overlap: %s [%#x,%#x) and %s [%#x,%#x)", stepNo, what, a.what, a.lo, a.hi, b.what, b.lo, b.hi)
			}
			return nil
		}
		for i, st := range c.Steps {
			switch st.Op {
			case "decode":
				b := core.Bind(st.S)
				o := &liveObj{spec: st.S, b: b, dest: newDest(b), step: i}
				block := make([]byte, len(st.Msg)+32)
				o.in = block[16 : 16+len(st.Msg) : 16+len(st.Msg)]
				copy(o.in, st.Msg)
				exp := core.FreshStruct(st.S)
				verdict := core.RefDecode(st.S, st.Msg, exp)
				n, err, f := fDecode(o.in, o.dest.Interface())
				if f != nil {
					return f
				}
				if verdict.Kind != core.VOK {
					// what a failing call has stored before the error is memory of that call as well: the
					// destination is kept and must read the same after every later step (no model needed)
					if err != nil {
						var snap *core.SVal
						if f := safely("reading the destination of a failed decode", func() { snap = o.b.Lift(o.dest.Elem()) }); f != nil {
							return f
						}
						o.snap = snap
						o.failed = true
						live = append(live, o)
						if len(live) > 6 {
							live = live[1:]
						}
						failedKept++
					}
					continue
				}
				if err != nil || n != verdict.N {
					return failf("wellformed-rejected", "step %d: n=%d want %d err=%v", i, n, verdict.N, err)
				}
				o.snap = o.b.Lift(o.dest.Elem())
				// a value the properties leave open (e.g. a field sent twice with different contents) is
				// not compared with the model's, but the memory it lives in is held to the same rules
				if !verdict.GrayValue {
					if m := core.EqualStruct(st.S, o.snap, exp, core.EqOpts{}, "$"); m != nil {
						return failf("decoded-value-differs", "step %d: %s", i, m)
					}
				}
				collectExtents(st.S, o.dest.Elem(), "$", &o.ext)
				inLo := uintptr(unsafe.Pointer(unsafe.SliceData(block)))
				inHi := inLo + uintptr(len(block))
				for _, e := range o.ext {
					if e.align > 1 && e.lo%e.align != 0 {
						return failf("misaligned", "step %d: %s at %#x is not aligned to %d", i, e.what, e.lo, e.align)
					}
					if e.lo < inHi && e.hi > inLo {
						return failf("aliases-input", "step %d: %s [%#x,%#x) overlaps the input buffer [%#x,%#x)", i, e.what, e.lo, e.hi, inLo+16, inLo+16+uintptr(len(st.Msg)))
					}
					alignKinds[e.align] = true
					if e.ptrs {
						ptrBearing = true
					}
				}
				nExt += len(o.ext)
				live = append(live, o)
				if len(live) > 6 {
					live = live[1:]
				}
			case "burst":
				// the sub-allocator's position carries over from decode to decode: re-decoding one
				// message many times walks it through the block at every phase (alignment padding at
				// block ends, large-object threshold); every object is checked, the last one stays live
				if len(live) == 0 {
					break
				}
				src := live[st.Target%len(live)]
				if src.failed || src.twice {
					break
				}
				msg := c.Steps[src.step].Msg
				reps := 120 + (st.Target*37)%200
				var last *liveObj
				for r := 0; r < reps; r++ {
					o := &liveObj{spec: src.spec, b: src.b, dest: newDest(src.b), step: src.step}
					o.in = append(make([]byte, 0, len(msg)), msg...)
					if _, err, f := fDecode(o.in, o.dest.Interface()); f != nil || err != nil {
						if f != nil {
							return f
						}
						return failf("wellformed-rejected", "step %d: repetition %d of a message accepted before failed: %v", i, r, err)
					}
					o.ext = o.ext[:0]
					collectExtents(src.spec, o.dest.Elem(), "$", &o.ext)
					for _, e := range o.ext {
						if e.align > 1 && e.lo%e.align != 0 {
							return failf("misaligned", "step %d (repetition %d of the message of step %d): %s at %#x is not aligned to %d", i, r, src.step, e.what, e.lo, e.align)
						}
					}
					if a, b, bad := overlapIn(append(append([]extent{}, o.ext...), src.ext...)); bad {
						return failf("memory-shared", "step %d (repetition %d): %s [%#x,%#x) overlaps %s [%#x,%#x)", i, r, a.what, a.lo, a.hi, b.what, b.lo, b.hi)
					}
					last = o
				}
				if last != nil {
					last.snap = last.b.Lift(last.dest.Elem())
					if m := core.EqualStruct(src.spec, last.snap, src.snap, core.EqOpts{}, "$"); m != nil {
						return failf("decoded-value-differs", "step %d: repeated decode of the same message differs: %s", i, m)
					}
					live = append(live, last)
					if len(live) > 6 {
						live = live[1:]
					}
					nExt += len(last.ext)
				}
			case "redecode":
				// an object is recycled: the caller keeps a copy of the struct (and so of everything the first
				// decode created for it) and decodes another message into the same destination. What the
				// second call creates is memory of its own: the kept copy must go on reading as before,
				// and new pieces must not overlap old ones
				if len(live) == 0 {
					break
				}
				src := live[st.Target%len(live)]
				msg2 := c.Steps[src.step].Msg2
				if src.failed || src.twice || msg2 == nil || src.spec.AnyNoCopy() {
					break
				}
				kept := reflect.New(src.dest.Elem().Type())
				kept.Elem().Set(src.dest.Elem())
				dest := src.dest
				src.dest = kept // the live entry now stands for the caller's copy
				in := append(make([]byte, 0, len(msg2)), msg2...)
				_, err, f := fDecode(in, dest.Interface())
				if f != nil {
					return f
				}
				o := &liveObj{spec: src.spec, b: src.b, dest: dest, in: in, step: src.step, failed: err != nil, twice: true}
				if f := safely("reading a destination decoded into twice", func() { o.snap = o.b.Lift(dest.Elem()) }); f != nil {
					return f
				}
				if err == nil {
					var ext []extent
					collectExtents(src.spec, dest.Elem(), "$", &ext)
					old := map[[2]uintptr]bool{}
					for _, e := range src.ext {
						old[[2]uintptr{e.lo, e.hi}] = true
					}
					for _, e := range ext {
						if !old[[2]uintptr{e.lo, e.hi}] { // pieces the second message did not replace are the first decode's
							o.ext = append(o.ext, e)
						}
					}
				}
				redecoded++
				live = append(live, o)
				if len(live) > 6 {
					live = live[1:]
				}
			case "clobber":
				if len(live) > 0 {
					o := live[st.Target%len(live)]
					for j := range o.in {
						o.in[j] = 0xA5
					}
					o.clobbered = true
					clobbered = true
				}
			case "gc":
				runtime.GC()
				runtime.GC()
				if clobbered {
					clobberedThenGC = true
				}
			case "drop":
				if len(live) > 1 {
					k := st.Target % len(live)
					live = append(live[:k:k], live[k+1:]...)
				}
			case "garbage":
				// churn the heap so that freed memory is reused
				c06Sink = c06Sink[:0]
				for j := 0; j < 64; j++ {
					g := make([]byte, 64+j*37)
					for k := range g {
						g[k] = 0xCC
					}
					c06Sink = append(c06Sink, g)
				}
			}
			if f := check(i, st.Op); f != nil {
				return f
			}
		}
		nontriv := (nExt >= 3 && len(alignKinds) >= 2 || ptrBearing) && clobberedThenGC
		var ops []string
		for _, st := range c.Steps {
			ops = append(ops, st.Op)
		}
		key := fmt.Sprint(ops)
		for _, st := range c.Steps {
			if st.S != nil {
				key += st.S.Sig() + string(st.Msg)
			}
		}
		labels := []string{}
		for a := range alignKinds {
			labels = append(labels, fmt.Sprintf("align:%d", a))
		}
		if ptrBearing {
			labels = append(labels, "pointer-bearing-backing-array")
		}
		if failedKept > 0 {
			labels = append(labels, "destination-of-failed-decode-kept")
		}
		if redecoded > 0 {
			labels = append(labels, "second-decode-into-a-destination-whose-copy-is-kept")
		}
		w.count(nontriv, key, map[string]interface{}{"history": ops, "extents": nExt}, labels...)
		return nil
	}
}

func TestC06(t *testing.T) {
	w := newWorker(t, "C06")
	drive(t, caseRunner[c06Case]{w: w, gen: genC06, run: runC06(w), journalled: true})
}
