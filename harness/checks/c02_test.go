package checks

import (
	"bytes"
	"testing"

	"pgregory.net/rapid"

	"verif/harness/core"
)

// C02 — the encoder's output is the Thrift Binary encoding of the value.

type c02Case struct {
	TV
	Cell string `json:"cell,omitempty"`
}

func genC02(t *rapid.T) c02Case {
	if rapid.Bool().Draw(t, "table") {
		tv, cell := genTableTV(t)
		return c02Case{TV: tv, Cell: cell}
	}
	return c02Case{TV: genTV(c01Cfg())(t)}
}

// containerStats: does the output contain a container with >= 2 elements or a nested struct?
func wireNontrivial(n *core.WNode) bool {
	nt := false
	var walk func(n *core.WNode, depth int)
	walk = func(n *core.WNode, depth int) {
		switch n.T {
		case core.WStruct:
			if depth > 0 {
				nt = true
			}
			for i := range n.Fields {
				walk(&n.Fields[i].V, depth+1)
			}
		case core.WList, core.WSet:
			if len(n.Elems) >= 2 {
				nt = true
			}
			for i := range n.Elems {
				walk(&n.Elems[i], depth+1)
			}
		case core.WMap:
			if len(n.Keys) >= 2 {
				nt = true
			}
			for i := range n.Keys {
				walk(&n.Keys[i], depth+1)
				walk(&n.Vals[i], depth+1)
			}
		}
	}
	walk(n, 0)
	return nt
}

func runC02(w *worker) func(c c02Case) *Failure {
	return func(c c02Case) *Failure {
		b := core.Bind(c.S)
		src := b.NewValue(c.V)
		out, f := encodeExact(src.Interface())
		if f != nil {
			return f
		}
		// the same value passed as a struct (copied by the library) must give the same encoding
		outV, f := encodeExact(src.Elem().Interface())
		if f != nil {
			f.Msg = "value passed by value: " + f.Msg
			return f
		}
		if cp, err1 := core.Canon(out); err1 == nil {
			if cv, err2 := core.Canon(outV); err2 != nil || !bytes.Equal(cp, cv) {
				return failf("byvalue-encoding-differs", "EncodeObject(v) differs from EncodeObject(&v)\n by value:   %s\n by pointer: %s", hexs(outV), hexs(out))
			}
		}
		// (b) strict schema-less parse: well-formed, consumed exactly
		tree, used, err := core.ParseStruct(out, 1<<20)
		if err != nil {
			return failf("output-malformed", "strict parser rejects EncodeObject output: %v; bytes %s", err, hexs(out))
		}
		if used != len(out) {
			return failf("output-trailing", "output has %d bytes after the top-level STOP; bytes %s", len(out)-used, hexs(out))
		}
		got := tree.Emit(nil, true)
		// (a) same bytes as the reference encoder up to map-entry order
		want := core.RefEncode(c.S, c.V)
		cw, err := core.Canon(want)
		if err != nil {
			return failf("model-bug", "reference encoding does not parse: %v", err)
		}
		if !bytes.Equal(got, cw) {
			ok := false
			alts := core.RefEncodeAll(c.S, c.V, 10)
			if alts == nil {
				w.label("too-many-ambiguous-omissions")
				ok = true
			}
			for _, a := range alts[min(1, len(alts)):] {
				ca, _ := core.Canon(a)
				if bytes.Equal(got, ca) {
					ok = true
					break
				}
			}
			if !ok {
				return failf("encoding-differs", "output differs from the reference encoding (up to map-entry order)\n got: %s\nwant: %s", hexs(out), hexs(want))
			}
		}
		// (c) apache/thrift reads the same tree
		at, aused, err := apacheRead(out)
		if err != nil || aused != len(out) {
			return failf("apache-rejects", "apache TBinaryProtocol cannot read the output: %v (used %d of %d); bytes %s", err, aused, len(out), hexs(out))
		}
		if !bytes.Equal(at.Emit(nil, false), out) {
			return failf("apache-differs", "apache TBinaryProtocol reads a different value; bytes %s", hexs(out))
		}
		// (b') the tree interpreted under the spec equals the (normalised) value
		exp := core.FreshStruct(c.S)
		ev := core.RefDecode(c.S, want, exp)
		gotv := core.FreshStruct(c.S)
		gv := core.RefDecode(c.S, out, gotv)
		if ev.Kind == core.VOK && !core.AmbiguousOmit(c.S, c.V) {
			if gv.Kind != core.VOK {
				return failf("output-denotes-other", "reference decoder rejects the output: %s", gv.Why)
			}
			if m := core.EqualStruct(c.S, gotv, exp, core.EqOpts{}, "$"); m != nil {
				return failf("output-denotes-other", "output denotes another value: %s", m)
			}
		}
		_, _, _, labels := typeShape(c.S)
		if c.Cell != "" {
			labels = append(labels, c.Cell)
		}
		w.count(wireNontrivial(&tree), c.S.Sig()+string(got), c, labels...)
		return nil
	}
}

func TestC02(t *testing.T) {
	w := newWorker(t, "C02")
	drive(t, caseRunner[c02Case]{w: w, gen: genC02, run: runC02(w), journalled: true})
}
