package checks

import (
	"encoding/binary"
	"fmt"
	"runtime"
	"syscall"
	"time"
	"unsafe"

	"github.com/cloudwego/frugal"
)

// C05, "terminates in time proportional to the input": a metamorphic check over families of
// inputs parameterised by a size n. The CPU time of the decoding thread (not wall-clock time)
// is measured for n and 16n; proportional means a ratio near 16 (measured: 12..20, up to ~40 for
// Go maps that outgrow the caches), quadratic 256. A violation needs a ratio above 160 in three
// successive complete re-measurements spread over two seconds (minimum of three runs each,
// collector off) and then, measured once more, a ratio above 8 in both halves of the step
// (n -> 4n -> 16n; quadratic is 16 in each), so that a noisy machine or a cache cliff cannot
// produce one; an input too fast to measure is counted and skipped.

type c05Scale struct {
	Family int `json:"family"`
	Trunc  int `json:"trunc"` // 0: whole message; k: cut to k/8 of its length (error path)
}

type scaleElem struct {
	A int32  `frugal:"1,default,i32"`
	S string `frugal:"2,default,string"`
}

type scaleH struct {
	L              []*scaleElem        `frugal:"1,default,list<scaleElem>"`
	LV             []scaleElem         `frugal:"2,default,list<scaleElem>"`
	M              map[int32]int32     `frugal:"3,default,map<i32:i32>"`
	MS             map[string]string   `frugal:"4,default,map<string:string>"`
	LS             []string            `frugal:"5,default,list<string>"`
	S              string              `frugal:"6,default,string"`
	B              []byte              `frugal:"7,default,binary"`
	LL             [][]bool            `frugal:"8,default,list<list<bool>>"`
	SE             []int64             `frugal:"9,default,set<i64>"`
	MV             map[int32]scaleElem `frugal:"10,default,map<i32:scaleElem>"`
	R              string              `frugal:"11,default,string"`
	RL             []int32             `frugal:"12,default,list<i32>"`
	NC             string              `frugal:"13,default,string,nocopy"`
	OP             *int64              `frugal:"14,optional,i64"`
	_unknownFields []byte
}

type scaleN struct {
	L  []*scaleElem        `frugal:"1,default,list<scaleElem>"`
	LV []scaleElem         `frugal:"2,default,list<scaleElem>"`
	M  map[int32]int32     `frugal:"3,default,map<i32:i32>"`
	MS map[string]string   `frugal:"4,default,map<string:string>"`
	LS []string            `frugal:"5,default,list<string>"`
	S  string              `frugal:"6,default,string"`
	B  []byte              `frugal:"7,default,binary"`
	LL [][]bool            `frugal:"8,default,list<list<bool>>"`
	SE []int64             `frugal:"9,default,set<i64>"`
	MV map[int32]scaleElem `frugal:"10,default,map<i32:scaleElem>"`
	R  string              `frugal:"11,default,string"`
	RL []int32             `frugal:"12,default,list<i32>"`
	NC string              `frugal:"13,default,string,nocopy"`
	OP *int64              `frugal:"14,optional,i64"`
}

type scaleFamily struct {
	name   string
	holder bool
	build  func(n int) []byte
}

func be32(b []byte, v int) []byte { return binary.BigEndian.AppendUint32(b, uint32(v)) }
func be16(b []byte, v int) []byte { return binary.BigEndian.AppendUint16(b, uint16(v)) }
func str(b []byte, s string) []byte {
	return append(be32(b, len(s)), s...)
}
func fieldHdr(b []byte, wt byte, id int) []byte { return be16(append(b, wt), id) }

var scaleFamilies = []scaleFamily{
	{"unknown-i32-fields/holder", true, func(n int) []byte {
		var b []byte
		for i := 0; i < n; i++ {
			b = be32(fieldHdr(b, 8, 1000+i%30000), i)
		}
		return append(b, 0)
	}},
	{"unknown-i32-fields/no-holder", false, func(n int) []byte {
		var b []byte
		for i := 0; i < n; i++ {
			b = be32(fieldHdr(b, 8, 1000+i%30000), i)
		}
		return append(b, 0)
	}},
	{"unknown-string-fields/holder", true, func(n int) []byte {
		var b []byte
		for i := 0; i < n; i++ {
			b = str(fieldHdr(b, 11, 2000+i%999), "unknown")
		}
		return append(b, 0)
	}},
	{"list<*struct>", false, func(n int) []byte {
		b := be32(append(fieldHdr(nil, 15, 1), 12), n)
		for i := 0; i < n; i++ {
			b = append(str(fieldHdr(be32(fieldHdr(b, 8, 1), i), 11, 2), "x"), 0)
		}
		return append(b, 0)
	}},
	{"list<struct by value>", true, func(n int) []byte {
		b := be32(append(fieldHdr(nil, 15, 2), 12), n)
		for i := 0; i < n; i++ {
			b = append(str(fieldHdr(be32(fieldHdr(b, 8, 1), i), 11, 2), "x"), 0)
		}
		return append(b, 0)
	}},
	{"map<i32,i32>", false, func(n int) []byte {
		b := be32(append(fieldHdr(nil, 13, 3), 8, 8), n)
		for i := 0; i < n; i++ {
			b = be32(be32(b, i*7), i)
		}
		return append(b, 0)
	}},
	{"map<string,string>", true, func(n int) []byte {
		b := be32(append(fieldHdr(nil, 13, 4), 11, 11), n)
		for i := 0; i < n; i++ {
			b = str(str(b, fmt.Sprintf("k%07d", i)), "v")
		}
		return append(b, 0)
	}},
	{"map with every key equal", false, func(n int) []byte {
		b := be32(append(fieldHdr(nil, 13, 3), 8, 8), n)
		for i := 0; i < n; i++ {
			b = be32(be32(b, 42), i)
		}
		return append(b, 0)
	}},
	{"list<string>", false, func(n int) []byte {
		b := be32(append(fieldHdr(nil, 15, 5), 11), n)
		for i := 0; i < n; i++ {
			b = str(b, "abcdefgh")
		}
		return append(b, 0)
	}},
	{"one string", true, func(n int) []byte {
		b := be32(fieldHdr(nil, 11, 6), 16*n)
		b = append(b, make([]byte, 16*n)...)
		return append(b, 0)
	}},
	{"one nocopy string", false, func(n int) []byte {
		b := be32(fieldHdr(nil, 11, 13), 16*n)
		b = append(b, make([]byte, 16*n)...)
		return append(b, 0)
	}},
	{"list<list<bool>> of empty lists", false, func(n int) []byte {
		b := be32(append(fieldHdr(nil, 15, 8), 15), n)
		for i := 0; i < n; i++ {
			b = be32(append(b, 2), 0)
		}
		return append(b, 0)
	}},
	{"set<i64>", true, func(n int) []byte {
		b := be32(append(fieldHdr(nil, 14, 9), 10), n)
		for i := 0; i < n; i++ {
			b = be32(be32(b, i), i)
		}
		return append(b, 0)
	}},
	{"map<i32,struct by value>", false, func(n int) []byte {
		b := be32(append(fieldHdr(nil, 13, 10), 8, 12), n)
		for i := 0; i < n; i++ {
			b = append(be32(fieldHdr(be32(b, i), 8, 1), i), 0)
		}
		return append(b, 0)
	}},
	{"one string field repeated", true, func(n int) []byte {
		var b []byte
		for i := 0; i < n; i++ {
			b = str(fieldHdr(b, 11, 11), "ab")
		}
		return append(b, 0)
	}},
	{"one list field repeated", false, func(n int) []byte {
		var b []byte
		for i := 0; i < n; i++ {
			b = be32(be32(be32(append(fieldHdr(b, 15, 12), 8), 2), i), i)
		}
		return append(b, 0)
	}},
	{"one optional pointer field repeated", false, func(n int) []byte {
		var b []byte
		for i := 0; i < n; i++ {
			b = be32(be32(fieldHdr(b, 10, 14), 0), i)
		}
		return append(b, 0)
	}},
	{"unknown list<list<i32>>/holder", true, func(n int) []byte {
		b := be32(append(fieldHdr(nil, 15, 900), 15), n)
		for i := 0; i < n; i++ {
			b = be32(be32(append(b, 8), 1), i)
		}
		return append(b, 0)
	}},
	{"unknown map<string,struct>/no-holder", false, func(n int) []byte {
		b := be32(append(fieldHdr(nil, 13, 901), 11, 12), n)
		for i := 0; i < n; i++ {
			b = append(be32(fieldHdr(str(b, "key"), 8, 1), i), 0)
		}
		return append(b, 0)
	}},
	{"mismatching wire type repeated/holder", true, func(n int) []byte {
		var b []byte
		for i := 0; i < n; i++ {
			b = be32(fieldHdr(b, 8, 6), i) // id 6 is a string in the schema
		}
		return append(b, 0)
	}},
}

const (
	scaleStep  = 16
	scaleLimit = 160.0
)

func threadCPU() int64 {
	var ts syscall.Timespec
	syscall.Syscall(syscall.SYS_CLOCK_GETTIME, 3 /* CLOCK_THREAD_CPUTIME_ID */, uintptr(unsafe.Pointer(&ts)), 0)
	return ts.Nano()
}

// scaleInput builds the input of a family at size n.
func scaleInput(sc c05Scale, n int) []byte {
	in := scaleFamilies[sc.Family%len(scaleFamilies)].build(n)
	if sc.Trunc > 0 {
		in = in[:len(in)*(sc.Trunc%8)/8]
	}
	return in
}

// scaleTime: CPU time of the calling thread spent in DecodeObject, minimum of reps runs.
func scaleTime(sc c05Scale, in []byte, reps int) (best int64, f *Failure) {
	fam := scaleFamilies[sc.Family%len(scaleFamilies)]
	best = -1
	for r := 0; r < reps; r++ {
		var dest interface{}
		if fam.holder {
			dest = &scaleH{}
		} else {
			dest = &scaleN{}
		}
		runtime.GC()
		t0 := threadCPU()
		_, err, ff := fDecode(in, dest)
		dt := threadCPU() - t0
		if ff != nil {
			return 0, ff
		}
		if sc.Trunc > 0 && err == nil {
			return 0, failf("malformed-accepted", "a message of family %q cut to %d/8 was accepted", fam.name, sc.Trunc%8)
		}
		if sc.Trunc == 0 && err != nil {
			return 0, failf("wellformed-rejected", "family %q, %d bytes: %v", fam.name, len(in), err)
		}
		if best < 0 || dt < best {
			best = dt
		}
	}
	return best, nil
}

func (r *c05Runner) scale(sc c05Scale) *Failure {
	runtime.LockOSThread()
	defer runtime.UnlockOSThread()
	fam := scaleFamilies[sc.Family%len(scaleFamilies)]
	frugal.EncodedSize(&scaleH{}) // first use of the types is not what is measured
	frugal.EncodedSize(&scaleN{})
	if _, f := scaleTime(sc, scaleInput(sc, 64), 1); f != nil {
		return f
	}
	n := 500
	var t1 int64
	for {
		in := scaleInput(sc, n)
		var f *Failure
		if t1, f = scaleTime(sc, in, 3); f != nil {
			return f
		}
		if t1 >= 500e3 || len(in) > 1<<20 {
			break
		}
		n *= 2
	}
	if t1 < 150e3 {
		r.w.label("scale:too-fast-to-measure")
		return nil
	}
	worst := 0.0
	confirmed := 0
	for round := 0; round < 3; round++ {
		if round > 0 {
			time.Sleep(time.Duration(round*round) * 400 * time.Millisecond) // let a burst of other work pass
		}
		a, f := scaleTime(sc, scaleInput(sc, n), 3)
		if f != nil {
			return f
		}
		b, f := scaleTime(sc, scaleInput(sc, scaleStep*n), 3)
		if f != nil {
			return f
		}
		ratio := float64(b) / float64(a)
		if round == 0 {
			worst = ratio
		}
		if ratio <= scaleLimit {
			break
		}
		confirmed++
		if ratio < worst {
			worst = ratio
		}
	}
	switch {
	case worst <= 24:
		r.w.label("scale:ratio<=24")
	case worst <= 50:
		r.w.label("scale:ratio 24..50")
	case worst <= 80:
		r.w.label("scale:ratio 50..80")
	case worst <= 120:
		r.w.label("scale:ratio 80..120")
	case worst <= scaleLimit:
		r.w.label("scale:ratio 120..160")
	default:
		r.w.label("scale:ratio>160 (not confirmed)")
	}
	if confirmed == 3 {
		// last stage: both halves of the step must be out of proportion on their own (a cache or
		// page-fault cliff sits in one of them), with more repetitions
		a, f := scaleTime(sc, scaleInput(sc, n), 5)
		if f != nil {
			return f
		}
		b, f := scaleTime(sc, scaleInput(sc, 4*n), 5)
		if f != nil {
			return f
		}
		c, f := scaleTime(sc, scaleInput(sc, 16*n), 5)
		if f != nil {
			return f
		}
		if float64(b) <= 8*float64(a) || float64(c) <= 8*float64(b) {
			r.w.label("scale:ratio>160 but not in both halves (not confirmed)")
			confirmed = 0
		}
	}
	if confirmed == 3 {
		return failf("superlinear-time", "family %q (cut %d/8): decoding 16x the input (%d -> %d bytes) takes %.0fx the CPU time, in three successive measurements; proportional would be about 16x",
			fam.name, sc.Trunc%8, len(scaleInput(sc, n)), len(scaleInput(sc, scaleStep*n)), worst)
	}
	r.w.count(true, fmt.Sprintf("scale|%d|%d", sc.Family%len(scaleFamilies), sc.Trunc%8), sc, "scale:family:"+fam.name)
	return nil
}
