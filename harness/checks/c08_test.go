package checks

import (
	"fmt"
	"runtime"
	"sort"
	"sync"
	"sync/atomic"
	"testing"
	"time"

	"pgregory.net/rapid"

	"verif/harness/core"
)

// C08 — safe for concurrent use, including first use of a type.
// One case = one round: a batch of never-used types (fresh anonymous types, some
// nesting one another, plus not-yet-used named types of the generated universe) is hit by
// several "registrar" goroutines at once, released by a barrier, while "steady"
// goroutines keep encoding/decoding types registered in earlier rounds. The worker is
// built with -race.

type c08Call struct {
	T   int        `json:"t"`  // index into Types
	Op  string     `json:"op"` // size, encode, decode
	V   *core.SVal `json:"v,omitempty"`
	Msg []byte     `json:"msg,omitempty"`
}

type c08Case struct {
	Types   []*core.StructSpec `json:"types"`   // fresh types of this round
	Named   int                `json:"named"`   // how many unused named types join the batch
	Regs    [][]c08Call        `json:"regs"`    // per registrar goroutine: calls, all on fresh types
	Steady  int                `json:"steady"`  // number of steady-state goroutines
	SteadyN int                `json:"steadyn"` // calls per steady goroutine
	Procs   int                `json:"procs"`   // GOMAXPROCS for the round
	Yield   []int              `json:"yield"`   // harness-side Gosched pattern
	Spin    []int              `json:"spin"`    // per registrar: busy iterations before its first call (staggered arrival)
	Storm   int                `json:"storm"`   // >0: milliseconds of concurrent by-value encodes of large values of one type
}

var spinSink atomic.Int64

var (
	c08ClustersOnce sync.Once
	c08Clusters     [][]string
)

// namedClusters: connected components of the reference graph of the named universe.
// A round takes one whole unused cluster, so mutually nested types are first used together.
func namedClusters() [][]string {
	c08ClustersOnce.Do(func() {
		names := namedRefs()
		parent := map[string]string{}
		var find func(x string) string
		find = func(x string) string {
			if parent[x] == x {
				return x
			}
			parent[x] = find(parent[x])
			return parent[x]
		}
		for _, n := range names {
			parent[n] = n
		}
		for _, n := range names {
			core.LookupSpec(n).WalkTypes(func(t *core.TypeSpec) {
				if t.Kind == core.KStruct && t.Ref != "" {
					if _, ok := parent[t.Ref]; ok {
						parent[find(n)] = find(t.Ref)
					}
				}
			})
		}
		groups := map[string][]string{}
		var roots []string
		for _, n := range names {
			r := find(n)
			if _, ok := groups[r]; !ok {
				roots = append(roots, r)
			}
			groups[r] = append(groups[r], n)
		}
		for _, r := range roots {
			c08Clusters = append(c08Clusters, groups[r])
		}
	})
	return c08Clusters
}

var (
	c08Round     int
	c08NamedNext int
	c08Old       []c08Prepared // calls on types registered in earlier rounds
)

type c08Prepared struct {
	byValue bool // pass the struct itself instead of a pointer (size/encode)
	spec    *core.StructSpec
	b       *core.Bound
	op      string
	v       *core.SVal
	msg     []byte
	// expectations from the sequential model
	alts  [][]byte // canonical reference encodings
	sizes map[int]bool
	exp   *core.SVal
	vd    core.Verdict
}

func genC08(t *rapid.T) c08Case {
	c := c08Case{}
	salt := rapid.IntRange(0, 1<<30).Draw(t, "salt")
	cfg := core.GenCfg{Holder: true, MaxFields: 5, MaxNest: 1, MaxBytes: 512, ContainerMax: 4, RequiredBias: 10}
	nt := rapid.IntRange(2, 6).Draw(t, "ntypes")
	for i := 0; i < nt; i++ {
		s := core.GenStruct(t, cfg)
		// a field name no earlier type has: the reflect type is new, so this is a first use
		// ... and a large field id: building the descriptor allocates and fills an index of that
		// size, which stretches the registration window other goroutines can fall into
		s.Fields = append(s.Fields, &core.FieldSpec{Name: fmt.Sprintf("Fresh_%d_%d", salt, i), ID: uint16(6000 + rapid.IntRange(0, 3000).Draw(t, "bigid")), Type: &core.TypeSpec{Kind: core.KI32}})
		c.Types = append(c.Types, s)
	}
	// wrappers nesting fresh types: first met nested or on their own, depending on the race
	nw := rapid.IntRange(1, 4).Draw(t, "nwrap")
	for i := 0; i < nw; i++ {
		a := c.Types[rapid.IntRange(0, len(c.Types)-1).Draw(t, "wa")]
		b := c.Types[rapid.IntRange(0, len(c.Types)-1).Draw(t, "wb")]
		w := &core.StructSpec{Fields: []*core.FieldSpec{
			{Name: fmt.Sprintf("WrapA_%d_%d", salt, i), ID: 1, Req: core.Optional, Type: &core.TypeSpec{Kind: core.KStruct, Struct: a, Ptr: true}},
			{Name: "WrapB", ID: 2, Type: &core.TypeSpec{Kind: core.KList, Elem: &core.TypeSpec{Kind: core.KStruct, Struct: b, Ptr: true}}},
			{Name: "WrapM", ID: 3, Type: &core.TypeSpec{Kind: core.KMap, Key: &core.TypeSpec{Kind: core.KString}, Elem: &core.TypeSpec{Kind: core.KStruct, Struct: a, Ptr: false}}},
		}}
		// every other fresh type too, behind the first ones: the wrapper's descriptor is complete
		// only after all of them are
		for j, o := range c.Types {
			if j < 6 {
				w.Fields = append(w.Fields, &core.FieldSpec{Name: fmt.Sprintf("WrapN%d", j), ID: uint16(10 + j), Req: core.Optional,
					Type: &core.TypeSpec{Kind: core.KStruct, Struct: o, Ptr: true}})
			}
		}
		c.Types = append(c.Types, w)
	}
	c.Named = rapid.IntRange(0, 5).Draw(t, "named")
	total := len(c.Types) + c.Named
	vcfg := core.GenCfg{MaxBytes: 512, ContainerMax: 4}
	g := rapid.SampledFrom([]int{2, 3, 4, 8, 16}).Draw(t, "registrars")
	for r := 0; r < g; r++ {
		var calls []c08Call
		n := rapid.IntRange(1, 6).Draw(t, "ncalls")
		for k := 0; k < n; k++ {
			calls = append(calls, c08Call{T: rapid.IntRange(0, total-1).Draw(t, "ct"), Op: rapid.SampledFrom([]string{"size", "encode", "decode"}).Draw(t, "cop")})
		}
		c.Regs = append(c.Regs, calls)
	}
	// values and messages are drawn per fresh anonymous type here; named ones are resolved at run time
	for r := range c.Regs {
		for k := range c.Regs[r] {
			call := &c.Regs[r][k]
			if call.T < len(c.Types) {
				s := c.Types[call.T]
				v := core.GenStructVal(t, vcfg, s)
				if call.Op == "decode" {
					call.Msg, _ = genWireMsg(t, s, v, wireEditCfg{Shuffle: true, Insert: true, MaxInsert: 1})
				} else {
					call.V = v
				}
			}
		}
	}
	c.Steady = rapid.SampledFrom([]int{0, 1, 2, 4, 8, 16}).Draw(t, "steady")
	c.SteadyN = rapid.IntRange(5, 40).Draw(t, "steadyn")
	c.Procs = rapid.SampledFrom([]int{2, 4, 16}).Draw(t, "procs")
	c.Yield = rapid.SliceOfN(rapid.IntRange(0, 3), 8, 8).Draw(t, "yield")
	c.Spin = rapid.SliceOfN(rapid.SampledFrom([]int{0, 0, 200, 1000, 5000, 20000, 60000, 200000, 600000}), 16, 16).Draw(t, "spin")
	if rapid.IntRange(0, 39).Draw(t, "storm") == 0 {
		c.Storm = rapid.SampledFrom([]int{120, 250, 400}).Draw(t, "stormms")
	}
	return c
}

func prepare(s *core.StructSpec, op string, v *core.SVal, msg []byte) c08Prepared {
	p := c08Prepared{spec: s, b: core.Bind(s), op: op, v: v, msg: msg}
	if op == "decode" {
		p.exp = core.FreshStruct(s)
		p.vd = core.RefDecode(s, msg, p.exp)
		return p
	}
	p.sizes = map[int]bool{}
	for _, a := range core.RefEncodeAll(s, v, 6) {
		p.sizes[len(a)] = true
		ca, _ := core.Canon(a)
		p.alts = append(p.alts, ca)
	}
	return p
}

// exec performs the call and compares with the sequential model.
func (p *c08Prepared) exec() *Failure {
	switch p.op {
	case "size", "encode":
		src := p.b.NewValue(p.v)
		arg := src.Interface()
		if p.byValue {
			arg = src.Elem().Interface() // the descriptor table is keyed by struct type and by pointer type
		}
		sz, f := fSize(arg)
		if f != nil {
			return f
		}
		if len(p.alts) > 0 && !p.sizes[sz] {
			return failf("size-wrong", "EncodedSize=%d under concurrency, sequential model says %v", sz, p.sizes)
		}
		if p.op == "size" {
			return nil
		}
		buf := make([]byte, sz)
		n, err, f := fEncode(buf, arg)
		if f != nil {
			return f
		}
		if err != nil || n != sz {
			return failf("encode-error", "n=%d size=%d err=%v", n, sz, err)
		}
		co, cerr := core.Canon(buf[:n])
		if cerr != nil {
			return failf("output-malformed", "%v: %s", cerr, hexs(buf[:n]))
		}
		if len(p.alts) > 0 {
			ok := false
			for _, a := range p.alts {
				if string(a) == string(co) {
					ok = true
				}
			}
			if !ok {
				return failf("encoding-differs", "output under concurrency differs from the sequential result: %s", hexs(buf[:n]))
			}
		}
	case "decode":
		dest := newDest(p.b)
		n, err, f := fDecode(append([]byte{}, p.msg...), dest.Interface())
		if f != nil {
			return f
		}
		switch p.vd.Kind {
		case core.VOK:
			if err != nil || n != p.vd.N {
				return failf("wellformed-rejected", "n=%d want %d err=%v", n, p.vd.N, err)
			}
			if !p.vd.GrayValue {
				if m := core.EqualStruct(p.spec, p.b.Lift(dest.Elem()), p.exp, core.EqOpts{}, "$"); m != nil {
					return failf("decoded-value-differs", "under concurrency: %s", m)
				}
			}
		case core.VErr:
			if err == nil {
				return failf("malformed-accepted", "model: %s", p.vd.Why)
			}
		}
	}
	return nil
}

type c08Runner struct {
	w *worker
}

func (r *c08Runner) run(c c08Case) *Failure {
	c08Round++
	if c.Procs > 0 {
		runtime.GOMAXPROCS(c.Procs)
	}
	// resolve the batch: fresh anonymous types + the next unused named types
	types := append([]*core.StructSpec{}, c.Types...)
	clusterSize := 0
	if clusters := namedClusters(); c08NamedNext < len(clusters) {
		for _, n := range clusters[c08NamedNext] {
			types = append(types, core.LookupSpec(n))
		}
		clusterSize = len(clusters[c08NamedNext])
		c08NamedNext++
	}
	vcfg := core.GenCfg{MaxBytes: 1024, ContainerMax: 3, NoNil: true}
	// prepare every call before the barrier (model work stays out of the race window)
	regs := make([][]c08Prepared, len(c.Regs))
	firstUsers := map[int]int{}
	for g, calls := range c.Regs {
		seen := map[int]bool{}
		for _, call := range calls {
			ti := call.T % len(types)
			if clusterSize > 0 && (call.T >= len(c.Types) || (g+len(regs[g]))%2 == 1) {
				// while unused named clusters remain, every other call goes to the round's cluster,
				// spread over all its members: mutually nested types are first used from both ends
				ti = len(c.Types) + (call.T+g)%clusterSize
			}
			s := types[ti]
			v, msg := call.V, call.Msg
			if ti >= len(c.Types) || (v == nil && msg == nil) {
				// named type (or the batch was shortened): derive a value deterministically
				tv := rapid.Custom(func(t *rapid.T) *core.SVal {
					rapid.Bool().Draw(t, "pad") // Example needs at least one draw (types without fields)
					return core.GenStructVal(t, vcfg, s)
				}).Example(c08Round*131 + g*17 + ti)
				if call.Op == "decode" {
					msg = core.RefEncode(s, tv)
					v = nil
				} else {
					v = tv
				}
			}
			if call.Op == "decode" && (g+len(regs[g])+c08Round)%4 == 1 {
				// one decode call in four gets a message that ends early, at the end of some value inside it
				// (between two map entries, list elements or fields) or anywhere: failing calls run next to
				// successful ones on the same types, in this round and, from the steady pool, in later ones
				if cuts := boundaryCuts(msg); len(cuts) > 0 {
					k := c08Round*7 + g*3 + len(regs[g])
					if k%5 == 4 {
						msg = msg[:(k*2654435761)%len(msg)]
					} else {
						msg = msg[:cuts[(k*40503)%len(cuts)]]
					}
				}
			}
			pp := prepare(s, call.Op, v, msg)
			pp.byValue = (g+len(regs[g])+c08Round)%3 == 0
			regs[g] = append(regs[g], pp)
			if !seen[ti] {
				seen[ti] = true
				firstUsers[ti]++
			}
		}
	}
	var clock int64
	type span struct{ a, b int64 }
	var mu sync.Mutex
	var fail *Failure
	var regSpans, steadySpans []span
	setFail := func(f *Failure, who string) {
		mu.Lock()
		if fail == nil {
			f.Msg = who + ": " + f.Msg
			fail = f
		}
		mu.Unlock()
	}
	var wg sync.WaitGroup
	start := make(chan struct{})
	for g := range regs {
		wg.Add(1)
		go func(g int) {
			defer wg.Done()
			<-start
			if len(c.Spin) > 0 {
				x := 0
				for j := 0; j < c.Spin[g%len(c.Spin)]; j++ {
					x += j
				}
				spinSink.Store(int64(x))
			}
			for k := range regs[g] {
				for y := 0; y < c.Yield[(g+k)%len(c.Yield)]; y++ {
					runtime.Gosched()
				}
				a := atomic.AddInt64(&clock, 1)
				f := regs[g][k].exec()
				b := atomic.AddInt64(&clock, 1)
				if k == 0 {
					mu.Lock()
					regSpans = append(regSpans, span{a, b})
					mu.Unlock()
				}
				if f != nil {
					setFail(f, fmt.Sprintf("registrar %d call %d (%s on fresh type %d)", g, k, regs[g][k].op, c.Regs[g][k].T))
					return
				}
			}
		}(g)
	}
	nSteady := c.Steady
	if len(c08Old) == 0 {
		nSteady = 0
	}
	for g := 0; g < nSteady; g++ {
		wg.Add(1)
		go func(g int) {
			defer wg.Done()
			<-start
			for k := 0; k < c.SteadyN; k++ {
				p := &c08Old[(g*7+k*13+c08Round)%len(c08Old)]
				a := atomic.AddInt64(&clock, 1)
				f := p.exec()
				b := atomic.AddInt64(&clock, 1)
				if k%4 == 0 {
					mu.Lock()
					steadySpans = append(steadySpans, span{a, b})
					mu.Unlock()
				}
				if f != nil {
					setFail(f, fmt.Sprintf("steady goroutine %d call %d (%s on an already registered type)", g, k, p.op))
					return
				}
			}
		}(g)
	}
	done := make(chan struct{})
	go func() { wg.Wait(); close(done) }()
	close(start)
	select {
	case <-done:
	case <-time.After(120 * time.Second):
		return failf("deadlock-or-hang", "goroutines did not finish within 120 s (registrars=%d steady=%d)", len(regs), nSteady)
	}
	if fail != nil {
		return fail
	}
	// failed calls, then the same message at once from many goroutines: whatever a failing call left
	// in a pool must not be handed to two of them
	for g := range regs {
		for k := range regs[g] {
			p := &regs[g][k]
			if p.op != "decode" || p.vd.Kind != core.VOK || (g+k+c08Round)%3 != 0 {
				continue
			}
			cuts := boundaryCuts(p.msg)
			for i, cut := range cuts {
				if i >= 16 {
					break
				}
				d := newDest(p.b)
				if _, err, f := fDecode(append([]byte{}, p.msg[:cut]...), d.Interface()); f != nil {
					return f
				} else if err == nil {
					return failf("malformed-accepted", "a message cut at offset %d of %d was accepted", cut, len(p.msg))
				}
			}
			var wg2 sync.WaitGroup
			for h := 0; h < 8; h++ {
				wg2.Add(1)
				go func(h int) {
					defer wg2.Done()
					for j := 0; j < 6; j++ {
						if f := p.exec(); f != nil {
							setFail(f, fmt.Sprintf("goroutine %d of 8 decoding one message concurrently after %d failed decodes of its prefixes", h, min(len(cuts), 16)))
							return
						}
					}
				}(h)
			}
			wg2.Wait()
			if fail != nil {
				return fail
			}
			r.w.label("failed-prefixes-then-concurrent-decodes")
		}
	}
	if c.Storm > 0 || c08Round == 1 {
		ms := c.Storm
		if ms == 0 {
			ms = 250
		}
		if f := c08Storm(c.Procs, ms); f != nil {
			return f
		}
		r.w.label("by-value-storm")
	}
	// the batch joins the steady-state pool
	for g := range regs {
		for k := range regs[g] {
			if len(c08Old) < 400 {
				c08Old = append(c08Old, regs[g][k])
			} else {
				c08Old[(c08Round*31+g*7+k)%len(c08Old)] = regs[g][k]
			}
		}
	}
	// labels (never used for pass/fail): did first uses overlap, was a steady call in flight
	overlapFirst := false
	for i := range regSpans {
		for j := i + 1; j < len(regSpans); j++ {
			if regSpans[i].a < regSpans[j].b && regSpans[j].a < regSpans[i].b {
				overlapFirst = true
			}
		}
	}
	steadyDuring := false
	for _, s := range steadySpans {
		for _, r := range regSpans {
			if s.a < r.b && r.a < s.b {
				steadyDuring = true
			}
		}
	}
	shared := false
	for _, n := range firstUsers {
		if n >= 2 {
			shared = true
		}
	}
	labels := []string{fmt.Sprintf("registrars:%d", len(regs)), fmt.Sprintf("gomaxprocs:%d", c.Procs)}
	if overlapFirst {
		labels = append(labels, "first-uses-overlapped")
	}
	if steadyDuring {
		labels = append(labels, "steady-call-during-registration")
	}
	if shared {
		labels = append(labels, "same-fresh-type-by->=2-goroutines")
	}
	if clusterSize > 0 {
		labels = append(labels, "named-cluster-in-batch", fmt.Sprintf("named-cluster-size:%d", min(clusterSize, 8)))
	}
	r.w.count(shared && overlapFirst && (steadyDuring || nSteady == 0 && c08Round <= 2), fmt.Sprintf("%d|%d|%d|%d", envInt("VERIF_SEED", 1), shard(), c08Round, len(regs)),
		map[string]interface{}{"round": c08Round, "registrars": len(regs), "steady": nSteady, "fresh_types": len(types), "gomaxprocs": c.Procs}, labels...)
	return nil
}

func TestC08(t *testing.T) {
	w := newWorker(t, "C08")
	r := &c08Runner{w: w}
	drive(t, caseRunner[c08Case]{w: w, gen: genC08, run: r.run, journalled: true})
}

// c08Storm: many goroutines per P keep encoding their own large value of one type, passed
// BY VALUE (the struct is copied into per-type pooled scratch storage), long enough for
// goroutines to be preempted in the middle of a call; every output must be the caller's own value.
func c08Storm(procs, ms int) *Failure {
	spec := &core.StructSpec{Fields: []*core.FieldSpec{
		{Name: "Tag", ID: 1, Type: &core.TypeSpec{Kind: core.KI64}},
		{Name: "Name", ID: 2, Type: &core.TypeSpec{Kind: core.KString}},
		{Name: "Items", ID: 3, Type: &core.TypeSpec{Kind: core.KList, Elem: &core.TypeSpec{Kind: core.KI64}}},
		{Name: "Last", ID: 4, Type: &core.TypeSpec{Kind: core.KI32}},
	}}
	b := core.Bind(spec)
	if procs <= 0 {
		procs = 2
	}
	g := 4 * procs
	const items = 4000 // what matters is that goroutines spend most of their time inside the call, not the size
	var mu sync.Mutex
	var fail *Failure
	var wg sync.WaitGroup
	deadline := time.Now().Add(time.Duration(ms) * time.Millisecond)
	for w := 0; w < g; w++ {
		wg.Add(1)
		go func(w int) {
			defer wg.Done()
			v := &core.SVal{F: map[uint16]core.Val{1: {I: int64(w)}, 2: {S: []byte(fmt.Sprintf("worker-%04d", w))}, 4: {I: int64(-w)}}}
			l := core.Val{L: make([]core.Val, items)}
			for i := range l.L {
				l.L[i] = core.Val{I: int64(w)}
			}
			v.F[3] = l
			want := core.RefEncode(spec, v)
			src := b.NewValue(v)
			arg := src.Elem().Interface()
			buf := make([]byte, len(want))
			for n := 0; time.Now().Before(deadline); n++ {
				sz, f := fSize(arg)
				if f == nil && sz != len(want) {
					f = failf("size-wrong", "EncodedSize(by value) = %d under concurrency, %d sequentially", sz, len(want))
				}
				var cnt int
				var err error
				if f == nil {
					cnt, err, f = fEncode(buf, arg)
				}
				if f == nil && (err != nil || cnt != len(want) || string(buf[:cnt]) != string(want)) {
					got, _, _ := core.ParseStruct(buf[:cnt], 8)
					desc := ""
					for _, fl := range got.Fields {
						if fl.T == core.WI64 || fl.T == core.WI32 {
							desc += fmt.Sprintf(" field%d=%d", fl.ID, int64(fl.V.U))
						}
					}
					f = failf("byvalue-mixture", "goroutine %d encoded its own unshared value by value and got another value's bytes (n=%d err=%v;%s)", w, cnt, err, desc)
				}
				if f != nil {
					mu.Lock()
					if fail == nil {
						fail = f
					}
					mu.Unlock()
					return
				}
			}
		}(w)
	}
	wg.Wait()
	return fail
}

// boundaryCuts: offsets just past a value inside the message (field values, list/set elements,
// map keys and values), i.e. the places where a container or struct can end "between" entries.
func boundaryCuts(msg []byte) []int {
	tree, _, err := core.ParseStruct(msg, 1<<20)
	if err != nil {
		return nil
	}
	seen := map[int]bool{}
	var out []int
	add := func(o int) {
		if o > 0 && o < len(msg) && !seen[o] {
			seen[o] = true
			out = append(out, o)
		}
	}
	var walk func(n *core.WNode)
	walk = func(n *core.WNode) {
		add(n.End)
		for i := range n.Fields {
			walk(&n.Fields[i].V)
		}
		for i := range n.Elems {
			walk(&n.Elems[i])
		}
		for i := range n.Keys {
			walk(&n.Keys[i])
			walk(&n.Vals[i])
		}
	}
	walk(&tree)
	sort.Ints(out)
	return out
}
