package checks

import (
	"fmt"
	"testing"

	"pgregory.net/rapid"

	"verif/harness/core"
)

// C15 — nesting depth is bounded: deep input is an error, not a stack overflow.

type c15Case struct {
	Type      string   `json:"type"`                // curated recursive named type
	Shapes    []string `json:"shapes"`              // nesting pattern, repeated until Depth levels are reached
	Depth     int      `json:"depth"`               // levels below the top-level struct (known part + unknown part)
	UnknownAt int      `json:"unknown_at"`          // -1: all known; k: from level k on the nesting sits inside an unknown field
	UnkShape  string   `json:"unk_shape,omitempty"` // struct | list | map
	Trail     int      `json:"trail,omitempty"`
	// Width: variable-length sibling fields written in every struct on the way down, in front of
	// the field that nests further (known string/list/map fields for RecWide - ids repeat beyond
	// 26 - unknown string fields for the other types). Depth is levels, not fields.
	Width int `json:"width,omitempty"`
}

type shapeDef struct {
	prefix, suffix []byte
	levels         int
}

// shapes available per type: how one step of nesting is written for that type.
var c15Shapes = map[string]map[string]shapeDef{
	"RecS":   {"S": {[]byte{0x0c, 0, 1}, []byte{0}, 1}},
	"RecL":   {"L": {[]byte{0x0f, 0, 1, 0x0c, 0, 0, 0, 1}, []byte{0}, 2}},
	"RecSet": {"E": {[]byte{0x0e, 0, 1, 0x0c, 0, 0, 0, 1}, []byte{0}, 2}},
	"RecMV":  {"M": {[]byte{0x0d, 0, 1, 0x08, 0x0c, 0, 0, 0, 1, 0, 0, 0, 42}, []byte{0}, 2}},
	"RecMK":  {"K": {[]byte{0x0d, 0, 1, 0x0c, 0x08, 0, 0, 0, 1}, []byte{0, 0, 0, 5, 0}, 2}},
	"RecLL":  {"LL": {[]byte{0x0f, 0, 1, 0x0f, 0, 0, 0, 1, 0x0c, 0, 0, 0, 1}, []byte{0}, 3}},
	"RecH": {
		"S": {[]byte{0x0c, 0, 1}, []byte{0}, 1},
		"L": {[]byte{0x0f, 0, 2, 0x0c, 0, 0, 0, 1}, []byte{0}, 2},
	},
	"RecWide": {
		"S": {[]byte{0x0c, 0, 1}, []byte{0}, 1},
		"L": {[]byte{0x0f, 0, 2, 0x0c, 0, 0, 0, 1}, []byte{0}, 2},
		"M": {[]byte{0x0d, 0, 3, 0x0b, 0x0c, 0, 0, 0, 1, 0, 0, 0, 1, 'k'}, []byte{0}, 2},
	},
	"RecBV": {
		"M":  {[]byte{0x0d, 0, 1, 0x08, 0x0c, 0, 0, 0, 1, 0, 0, 0, 42}, []byte{0}, 2},
		"L":  {[]byte{0x0f, 0, 2, 0x0c, 0, 0, 0, 1}, []byte{0}, 2},
		"ML": {[]byte{0x0d, 0, 3, 0x08, 0x0f, 0, 0, 0, 1, 0, 0, 0, 7, 0x0c, 0, 0, 0, 1}, []byte{0}, 3},
	},
	"RecReq": {
		"S": {[]byte{0x0c, 0, 1}, []byte{0x0a, 0, 3, 0, 0, 0, 0, 0, 0, 0, 7, 0}, 1},
		"L": {[]byte{0x0f, 0, 2, 0x0c, 0, 0, 0, 1}, []byte{0x0a, 0, 3, 0, 0, 0, 0, 0, 0, 0, 7, 0}, 2},
	},
	// mutual recursion: no type refers to itself, the cycle runs MutA -> MutB -> (list) MutA and
	// MutA -> MutB -> MutC -> (map value) MutA; the suffix closes MutB (and MutC) and then the MutA
	// the step started in, which has a required field
	"MutA": {
		"AB": {[]byte{0x0c, 0, 1, 0x0f, 0, 1, 0x0c, 0, 0, 0, 1}, []byte{0, 0x0a, 0, 2, 0, 0, 0, 0, 0, 0, 0, 7, 0}, 3},
		"AC": {[]byte{0x0c, 0, 1, 0x0c, 0, 2, 0x0d, 0, 1, 0x0b, 0x0c, 0, 0, 0, 1, 0, 0, 0, 1, 'k'}, []byte{0, 0, 0x0a, 0, 2, 0, 0, 0, 0, 0, 0, 0, 7, 0}, 4},
	},
	"RecMix": {
		"S":   {[]byte{0x0c, 0, 1}, []byte{0}, 1},
		"L":   {[]byte{0x0f, 0, 2, 0x0c, 0, 0, 0, 1}, []byte{0}, 2},
		"M":   {[]byte{0x0d, 0, 3, 0x0b, 0x0c, 0, 0, 0, 1, 0, 0, 0, 1, 'k'}, []byte{0}, 2},
		"E":   {[]byte{0x0e, 0, 4, 0x0c, 0, 0, 0, 1}, []byte{0}, 2},
		"K":   {[]byte{0x0d, 0, 5, 0x0c, 0x03, 0, 0, 0, 1}, []byte{9, 0}, 2},
		"LMS": {[]byte{0x0f, 0, 6, 0x0d, 0, 0, 0, 1, 0x06, 0x0e, 0, 0, 0, 1, 0, 1, 0x0c, 0, 0, 0, 1}, []byte{0}, 4},
	},
}

// c15Tail: what the innermost struct of the type still has to carry (its required fields).
var c15Tail = map[string][]byte{"RecReq": {0x0a, 0, 3, 0, 0, 0, 0, 0, 0, 0, 9}, "MutA": {0x0a, 0, 2, 0, 0, 0, 0, 0, 0, 0, 9}}

var c15Types = []string{"RecS", "RecL", "RecSet", "RecMV", "RecMK", "RecLL", "RecH", "RecMix", "RecWide", "RecWide", "RecReq", "RecReq", "RecBV", "MutA", "MutA"}

var c15Depths = []int{1, 2, 3, 5, 8, 16, 31, 32, 33, 40, 47, 48, 49, 50, 63, 64, 65, 66, 100, 127, 128, 129, 200, 255, 256, 257, 340, 341, 342, 400, 511, 512, 513,
	600, 682, 683, 767, 768, 769, 900, 1000, 1022, 1023, 1024, 1025, 1100, 2000, 5000, 10000, 100000, 1000000}

func genC15(t *rapid.T) c15Case {
	c := c15Case{UnknownAt: -1}
	c.Type = rapid.SampledFrom(c15Types).Draw(t, "type")
	var names []string
	for n := range c15Shapes[c.Type] {
		names = append(names, n)
	}
	sortStrings(names)
	k := rapid.IntRange(1, 4).Draw(t, "nshapes")
	for i := 0; i < k; i++ {
		c.Shapes = append(c.Shapes, rapid.SampledFrom(names).Draw(t, "shape"))
	}
	switch m := rapid.IntRange(0, 9).Draw(t, "depthmode"); {
	case m < 5:
		c.Depth = rapid.SampledFrom(c15Depths).Draw(t, "depthb")
	case m < 8:
		c.Depth = rapid.IntRange(1, 60).Draw(t, "depths")
	default:
		c.Depth = rapid.IntRange(1, 1200).Draw(t, "depthu")
	}
	if c.Depth > 20000 && !thorough() && rapid.IntRange(0, 9).Draw(t, "hugequick") != 0 {
		c.Depth = 2000 + c.Depth%5000 // quick: the million-level message only now and then
	}
	if rapid.IntRange(0, 2).Draw(t, "unknown") == 0 {
		c.UnknownAt = rapid.IntRange(0, min(c.Depth, 45)).Draw(t, "unknownat")
		c.UnkShape = rapid.SampledFrom([]string{"struct", "list", "map", "mapkey", "struct-mapkey", "set"}).Draw(t, "unkshape")
	}
	if rapid.Bool().Draw(t, "trail") {
		c.Trail = rapid.IntRange(1, 16).Draw(t, "ntrail")
	}
	if c.Depth <= 1100 && (c.Type == "RecWide" || rapid.IntRange(0, 3).Draw(t, "widen") == 0) {
		c.Width = rapid.SampledFrom([]int{0, 1, 5, 20, 24, 26, 30, 40}).Draw(t, "width")
		if c.Depth <= 3 && rapid.IntRange(0, 3).Draw(t, "flat") == 0 {
			c.Width = rapid.SampledFrom([]int{1000, 1030, 1100, 3000}).Draw(t, "flatwidth") // one flat struct, a field repeated
		}
	}
	return c
}

func sortStrings(s []string) {
	for i := range s {
		for j := i + 1; j < len(s); j++ {
			if s[j] < s[i] {
				s[i], s[j] = s[j], s[i]
			}
		}
	}
}

// c15Siblings: the sibling fields written at the start of every struct level.
func c15Siblings(c c15Case, leaf bool) []byte {
	var out []byte
	for j := 0; j < c.Width; j++ {
		if leaf && c.Type == "RecWide" && j%27 >= 24 {
			// no containers in the innermost struct: they would be one level more
			out = append(out, 0x0b, 0, 42, 0, 0, 0, 1, 'b')
			continue
		}
		if c.Type != "RecWide" {
			out = append(out, 0x0b, byte((2000+j%200)>>8), byte(2000+j%200), 0, 0, 0, 1, 'u')
			continue
		}
		switch k := j % 27; {
		case k < 24:
			out = append(out, 0x0b, 0, byte(10+k), 0, 0, 0, 1, 'w')
		case k == 24:
			out = append(out, 0x0f, 0, 40, 0x0b, 0, 0, 0, 1, 0, 0, 0, 1, 'l')
		case k == 25:
			out = append(out, 0x0d, 0, 41, 0x08, 0x0b, 0, 0, 0, 1, 0, 0, 0, 7, 0, 0, 0, 1, 'm')
		default:
			out = append(out, 0x0b, 0, 42, 0, 0, 0, 2, 'b', 'b')
		}
	}
	return out
}

// buildDeep synthesises the message and returns it with the number of levels it has.
func buildDeep(c c15Case) ([]byte, int) {
	shapes := c15Shapes[c.Type]
	sib := c15Siblings(c, false)
	var pre [][]byte
	var suf [][]byte
	levels := 0
	knownLimit := c.Depth
	if c.UnknownAt >= 0 {
		knownLimit = c.UnknownAt
	}
	for i := 0; levels < knownLimit; i++ {
		sd := shapes[c.Shapes[i%len(c.Shapes)]]
		if levels+sd.levels > knownLimit {
			// fall back to the type's smallest step, or stop
			// (in name order: the message must be a function of the case alone, whatever order the
			// runtime iterates a map in - C07 rebuilds it in another process)
			smallest := sd
			var snames []string
			for n := range shapes {
				snames = append(snames, n)
			}
			sortStrings(snames)
			for _, n := range snames {
				if o := shapes[n]; o.levels < smallest.levels {
					smallest = o
				}
			}
			if levels+smallest.levels > knownLimit {
				break
			}
			sd = smallest
		}
		pre = append(pre, append(append([]byte{}, sib...), sd.prefix...))
		suf = append(suf, sd.suffix)
		levels += sd.levels
	}
	inner := c15Siblings(c, c.UnknownAt < 0)
	if c.UnknownAt >= 0 {
		// an unknown field (id 999) whose value nests the remaining levels
		rem := c.Depth - levels
		if rem < 1 {
			rem = 1
		}
		switch c.UnkShape {
		case "struct":
			// struct { 1: struct { 1: ... } }
			inner = append(inner, 0x0c, 0x03, 0xe7)
			for i := 1; i < rem; i++ {
				inner = append(inner, 0x0c, 0, 1)
			}
			for i := 0; i < rem; i++ {
				inner = append(inner, 0)
			}
		case "list":
			// list<list<...list<i32>>> with one element per level
			inner = append(inner, 0x0f, 0x03, 0xe7)
			for i := 1; i < rem; i++ {
				inner = append(inner, 0x0f, 0, 0, 0, 1)
			}
			inner = append(inner, 0x08, 0, 0, 0, 0)
		case "set":
			inner = append(inner, 0x0e, 0x03, 0xe7)
			for i := 1; i < rem; i++ {
				inner = append(inner, 0x0e, 0, 0, 0, 1)
			}
			inner = append(inner, 0x08, 0, 0, 0, 0)
		case "mapkey":
			// map<map<map<...,i8>,i8>,i8>: the nesting runs through the KEYS
			inner = append(inner, 0x0d, 0x03, 0xe7)
			for i := 1; i < rem; i++ {
				inner = append(inner, 0x0d, 0x03, 0, 0, 0, 1)
			}
			inner = append(inner, 0x03, 0x03, 0, 0, 0, 0)
			for i := 1; i < rem; i++ {
				inner = append(inner, 7) // the value byte of each enclosing entry
			}
		case "struct-mapkey":
			// struct{1: map<struct{1: map<struct...,i8>},i8>}: alternating struct and map-by-key
			inner = append(inner, 0x0c, 0x03, 0xe7)
			n := 1
			var closers []byte
			for n+2 <= rem {
				inner = append(inner, 0x0d, 0, 1, 0x0c, 0x03, 0, 0, 0, 1)
				closers = append(closers, 0, 7) // STOP of the enclosing struct after the map field, value byte of the entry
				n += 2
			}
			inner = append(inner, 0) // innermost struct (a key): empty
			for i := len(closers) - 1; i >= 0; i-- {
				inner = append(inner, closers[i])
			}
			rem = n // this shape advances two levels per step: an even remainder is one level short
		case "map":
			inner = append(inner, 0x0d, 0x03, 0xe7)
			for i := 1; i < rem; i++ {
				inner = append(inner, 0x03, 0x0d, 0, 0, 0, 1, 7)
			}
			inner = append(inner, 0x03, 0x03, 0, 0, 0, 0)
		}
		levels += rem
		inner = append(inner, c15Tail[c.Type]...)
		inner = append(inner, 0) // STOP of the struct holding the unknown field
	} else {
		inner = append(inner, c15Tail[c.Type]...)
		inner = append(inner, 0) // innermost struct: no further nesting
	}
	n := len(inner)
	for i := range pre {
		n += len(pre[i]) + len(suf[i])
	}
	out := make([]byte, 0, n+c.Trail)
	for _, p := range pre {
		out = append(out, p...)
	}
	out = append(out, inner...)
	for i := len(suf) - 1; i >= 0; i-- {
		out = append(out, suf[i]...)
	}
	for i := 0; i < c.Trail; i++ {
		out = append(out, byte(0xA0+i))
	}
	return out, levels
}

func runC15(w *worker) func(c c15Case) *Failure {
	return func(c c15Case) *Failure {
		s := core.LookupSpec(c.Type)
		msg, levels := buildDeep(c)
		band := "d<=48"
		switch {
		case levels >= core.DepthMust:
			band = "d>=1024"
		case levels > core.DepthSure:
			band = "48<d<1024"
		}
		pos := "known"
		if c.UnknownAt >= 0 {
			pos = "unknown-" + c.UnkShape
		}
		if levels <= 3000 {
			// the model can follow: full comparison (value for d<=48, verdict bands above)
			verdict, f := checkDecodeAgainstModel(decCase{S: s, Msg: msg})
			if f != nil {
				f.Msg = fmt.Sprintf("%d levels (%s): %s", levels, pos, f.Msg)
				return f
			}
			if levels < core.DepthMust && verdict.MaxDepth != levels {
				return failf("harness-depth-count", "synthesised %d levels, model counted %d", levels, verdict.MaxDepth)
			}
		} else {
			b := core.Bind(s)
			dest := newDest(b)
			n, err, f := fDecode(msg, dest.Interface())
			if f != nil {
				f.Msg = fmt.Sprintf("%d levels (%s): %s", levels, pos, f.Msg)
				return f
			}
			if err == nil {
				return failf("deep-accepted", "a message nested %d levels (%d bytes) was accepted (n=%d)", levels, len(msg), n)
			}
			if protoErrType(err) != peDepthLimit {
				return failf("depth-error-kind", "a message nested %d levels must be rejected with DEPTH_LIMIT, got: %.300v", levels, err)
			}
		}
		mixed := false
		for _, sh := range c.Shapes {
			if sh != c.Shapes[0] {
				mixed = true
			}
		}
		labels := []string{"band:" + band, "position:" + pos, "type:" + c.Type}
		if c.Width >= 20 {
			labels = append(labels, "wide-levels:"+band)
		}
		w.count(levels >= 40 || mixed, fmt.Sprintf("%s|%v|%d|%d|%s|%d", c.Type, c.Shapes, levels, c.UnknownAt, c.UnkShape, c.Width), c, labels...)
		return nil
	}
}

func TestC15(t *testing.T) {
	w := newWorker(t, "C15")
	drive(t, caseRunner[c15Case]{w: w, gen: genC15, run: runC15(w), journalled: true})
}
