package checks

// Foreign-writer / schema-evolution messages: the reference encoding of a value is
// parsed into a wire tree and edited with rapid-drawn, well-formedness-preserving
// operations (reorder fields, drop fields, insert unknown fields of every wire type,
// retype a field, renumber a field), at every struct nesting level, plus trailing bytes.

import (
	"pgregory.net/rapid"

	"verif/harness/core"
)

type wireEditCfg struct {
	Shuffle, Drop, Insert, Retype, Renumber bool
	Trailing                                bool
	// OddBool: bools may hold a byte other than 0 and 1 (accepted by the decoder; what the Go
	// value then is stays outside the model, so only differential checks ask for it)
	OddBool bool
	// Dup: a known or unknown field may occur twice with the same bytes (decided: the value is that
	// value however the occurrences are combined) or, one time in four, with a value of another
	// wire type under the same id (skipped like any mismatching field)
	Dup       bool
	MaxInsert int
}

var fullEdit = wireEditCfg{Shuffle: true, Drop: true, Insert: true, Retype: true, Renumber: true, Trailing: true, Dup: true, MaxInsert: 3}

var foreignTypes = []*core.TypeSpec{
	{Kind: core.KBool}, {Kind: core.KI8}, {Kind: core.KI16}, {Kind: core.KI32}, {Kind: core.KI64}, {Kind: core.KDouble},
	{Kind: core.KString}, {Kind: core.KBinary},
	{Kind: core.KList, Elem: &core.TypeSpec{Kind: core.KI32}},
	{Kind: core.KList, Elem: &core.TypeSpec{Kind: core.KString}},
	{Kind: core.KSet, Elem: &core.TypeSpec{Kind: core.KI64}},
	{Kind: core.KMap, Key: &core.TypeSpec{Kind: core.KString}, Elem: &core.TypeSpec{Kind: core.KI64}},
	{Kind: core.KMap, Key: &core.TypeSpec{Kind: core.KI32}, Elem: &core.TypeSpec{Kind: core.KList, Elem: &core.TypeSpec{Kind: core.KString}}},
	{Kind: core.KStruct, Struct: &core.StructSpec{Fields: []*core.FieldSpec{
		{Name: "U1", ID: 1, Type: &core.TypeSpec{Kind: core.KI32}},
		{Name: "U2", ID: 2, Type: &core.TypeSpec{Kind: core.KList, Elem: &core.TypeSpec{Kind: core.KStruct, Struct: &core.StructSpec{Fields: []*core.FieldSpec{
			{Name: "V1", ID: 1, Type: &core.TypeSpec{Kind: core.KString}},
			{Name: "V2", ID: 7, Type: &core.TypeSpec{Kind: core.KMap, Key: &core.TypeSpec{Kind: core.KI8}, Elem: &core.TypeSpec{Kind: core.KDouble}}},
		}}}}},
	}}},
	{Kind: core.KList, Elem: &core.TypeSpec{Kind: core.KList, Elem: &core.TypeSpec{Kind: core.KSet, Elem: &core.TypeSpec{Kind: core.KI16}}}},
	{Kind: core.KList, Elem: &core.TypeSpec{Kind: core.KBool}}, // empty containers come from count 0
	{Kind: core.KMap, Key: &core.TypeSpec{Kind: core.KI64}, Elem: &core.TypeSpec{Kind: core.KBool}},
}

// genForeignValue draws a wire value of a random foreign type (as a parsed node).
func genForeignValue(t *rapid.T, avoidWT int) (core.WNode, byte) {
	for {
		ft := foreignTypes[rapid.IntRange(0, len(foreignTypes)-1).Draw(t, "ftype")]
		if int(ft.WT()) == avoidWT {
			continue
		}
		holder := &core.StructSpec{Fields: []*core.FieldSpec{{Name: "X", ID: 1, Type: ft}}}
		v := core.GenStructVal(t, core.GenCfg{ContainerMax: 4, MaxBytes: 256, NoNil: rapid.Bool().Draw(t, "fnonil")}, holder)
		b := core.RefEncode(holder, v)
		n, _, err := core.ParseStruct(b, 1<<20)
		if err != nil || len(n.Fields) != 1 {
			panic("foreign value does not parse")
		}
		return n.Fields[0].V, ft.WT()
	}
}

// editStruct edits one struct node of the tree in place, recursing into known
// sub-structs (everything reachable through struct/list/set/map nodes).
func editStruct(t *rapid.T, n *core.WNode, e wireEditCfg, depth int, stats map[string]int) {
	// recurse first (children are edited before being possibly dropped/moved)
	var rec func(v *core.WNode)
	rec = func(v *core.WNode) {
		switch v.T {
		case core.WBool:
			if e.OddBool && rapid.IntRange(0, 2).Draw(t, "oddbool") == 0 {
				v.U = uint64(rapid.IntRange(2, 255).Draw(t, "oddboolbyte"))
				stats["oddbool"]++
			}
		case core.WStruct:
			editStruct(t, v, e, depth+1, stats)
		case core.WList, core.WSet:
			for i := range v.Elems {
				rec(&v.Elems[i])
			}
		case core.WMap:
			for i := range v.Keys {
				rec(&v.Keys[i])
				rec(&v.Vals[i])
			}
		}
	}
	for i := range n.Fields {
		rec(&n.Fields[i].V)
	}
	p := 3 + depth*2 // deeper structs are edited less often (there are many of them)
	if e.Drop && len(n.Fields) > 0 && rapid.IntRange(0, p).Draw(t, "drop") == 0 {
		i := rapid.IntRange(0, len(n.Fields)-1).Draw(t, "dropi")
		n.Fields = append(n.Fields[:i:i], n.Fields[i+1:]...)
		stats["drop"]++
	}
	if e.Retype && len(n.Fields) > 0 && rapid.IntRange(0, p+2).Draw(t, "retype") == 0 {
		i := rapid.IntRange(0, len(n.Fields)-1).Draw(t, "retypei")
		v, wt := genForeignValue(t, int(n.Fields[i].T))
		n.Fields[i].T, n.Fields[i].V = wt, v
		stats["retype"]++
	}
	if e.Renumber && len(n.Fields) > 0 && rapid.IntRange(0, p+2).Draw(t, "renum") == 0 {
		i := rapid.IntRange(0, len(n.Fields)-1).Draw(t, "renumi")
		id := uint16(rapid.IntRange(0, 65535).Draw(t, "renumid"))
		dup := false
		for j := range n.Fields {
			if n.Fields[j].ID == id {
				dup = true
			}
		}
		if !dup {
			n.Fields[i].ID = id
			stats["renumber"]++
		}
	}
	if e.Insert && rapid.IntRange(0, p-1).Draw(t, "insert") == 0 {
		k := rapid.IntRange(1, max(1, e.MaxInsert)).Draw(t, "ninsert")
		for j := 0; j < k; j++ {
			v, wt := genForeignValue(t, -1)
			if depth <= 1 && stats["insert-large"] == 0 && rapid.IntRange(0, 11).Draw(t, "inslarge") == 0 {
				// one unknown field larger than the decoder's block (2 KiB): a long string
				big := make([]byte, rapid.SampledFrom([]int{2040, 2049, 2100, 4096, 5000, 9000}).Draw(t, "inslargen"))
				for i := range big {
					big[i] = byte('a' + i%23)
				}
				v, wt = core.WNode{T: core.WString, S: big}, core.WString
				stats["insert-large"]++
			}
			var id uint16
			if rapid.Bool().Draw(t, "insnear") && len(n.Fields) > 0 {
				id = n.Fields[rapid.IntRange(0, len(n.Fields)-1).Draw(t, "insnearf")].ID + uint16(rapid.IntRange(1, 3).Draw(t, "insoff"))
			} else {
				id = uint16(rapid.IntRange(0, 65535).Draw(t, "insid"))
			}
			dup := false
			for i := range n.Fields {
				if n.Fields[i].ID == id {
					dup = true
				}
			}
			if dup {
				continue
			}
			pos := rapid.IntRange(0, len(n.Fields)).Draw(t, "inspos")
			nf := core.WField{ID: id, T: wt, V: v}
			n.Fields = append(n.Fields, core.WField{})
			copy(n.Fields[pos+1:], n.Fields[pos:])
			n.Fields[pos] = nf
			stats["insert"]++
		}
	}
	if e.Dup && len(n.Fields) > 0 && stats["dup"] < 3 && rapid.IntRange(0, p+3).Draw(t, "dup") == 0 {
		// at most three repeats per message, of fields of moderate size: repeats of repeats of nested
		// structs would double the message at every level
		i := rapid.IntRange(0, len(n.Fields)-1).Draw(t, "dupi")
		if n.Fields[i].End-n.Fields[i].Off > 2048 {
			i = 0
		}
		cp := n.Fields[i]
		if cp.End-cp.Off > 2048 {
			cp.V, cp.T = genForeignValue(t, int(cp.T))
		}
		if rapid.IntRange(0, 3).Draw(t, "dupother") == 0 {
			cp.V, cp.T = genForeignValue(t, int(cp.T)) // another wire type under the same id: skipped
		}
		pos := rapid.IntRange(0, len(n.Fields)).Draw(t, "duppos")
		n.Fields = append(n.Fields, core.WField{})
		copy(n.Fields[pos+1:], n.Fields[pos:])
		n.Fields[pos] = cp
		stats["dup"]++
	}
	if e.Shuffle && len(n.Fields) > 1 && rapid.IntRange(0, 2).Draw(t, "shuffle") == 0 {
		n.Fields = rapid.Permutation(n.Fields).Draw(t, "perm")
		stats["shuffle"]++
	}
}

// genWireMsg draws a well-formed message for reader type s derived from value v.
func genWireMsg(t *rapid.T, s *core.StructSpec, v *core.SVal, e wireEditCfg) ([]byte, map[string]int) {
	stats := map[string]int{}
	enc := core.RefEncode(s, v)
	tree, _, err := core.ParseStruct(enc, 1<<20)
	if err != nil {
		panic("reference encoding does not parse: " + err.Error())
	}
	editStruct(t, &tree, e, 0, stats)
	out := tree.Emit(nil, false)
	if e.Trailing && rapid.IntRange(0, 2).Draw(t, "trailing") == 0 {
		n := rapid.IntRange(1, 64).Draw(t, "ntrail")
		out = append(out, rapid.SliceOfN(rapid.Byte(), n, n).Draw(t, "trail")...)
		stats["trailing"]++
	}
	return out, stats
}
