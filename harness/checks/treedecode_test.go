package checks

// A second, tree-based implementation of the decode contract, used only to cross-check the
// byte-level reference decoder (core.RefDecode): the message is first parsed by apache/thrift's
// TBinaryProtocol into a schema-less tree, and the tree is then interpreted under the spec.

import (
	"testing"

	"pgregory.net/rapid"

	"verif/harness/core"
)

func treeDecodeStruct(s *core.StructSpec, n *core.WNode, dest *core.SVal, isTop bool) {
	for i := range n.Fields {
		wf := &n.Fields[i]
		f := s.ByID(wf.ID)
		if f == nil || f.Type.WT() != wf.T {
			continue // skipped (holders are compared separately by RefDecode's own tests)
		}
		cur := dest.F[f.ID]
		dest.F[f.ID] = treeDecodeValue(f.Type, &wf.V, cur, true)
	}
}

func treeDecodeValue(t *core.TypeSpec, n *core.WNode, cur core.Val, isField bool) core.Val {
	switch t.Kind {
	case core.KBool:
		return core.Val{B: n.U != 0}
	case core.KI8:
		return core.Val{I: int64(int8(n.U))}
	case core.KI16:
		return core.Val{I: int64(int16(n.U))}
	case core.KI32, core.KEnum:
		return core.Val{I: int64(int32(n.U))}
	case core.KI64:
		return core.Val{I: int64(n.U)}
	case core.KDouble:
		return core.Val{F: n.U}
	case core.KString, core.KBinary:
		return core.Val{S: append([]byte{}, n.S...)}
	case core.KList, core.KSet:
		out := core.Val{L: make([]core.Val, len(n.Elems))}
		for i := range n.Elems {
			out.L[i] = treeDecodeValue(t.Elem, &n.Elems[i], core.Val{}, false)
		}
		return out
	case core.KMap:
		out := core.Val{M: make([]core.KV, 0, len(n.Keys))}
		for i := range n.Keys {
			out.M = append(out.M, core.KV{K: treeDecodeValue(t.Key, &n.Keys[i], core.Val{}, false), V: treeDecodeValue(t.Elem, &n.Vals[i], core.Val{}, false)})
		}
		return out
	case core.KStruct:
		ss := t.SS()
		var dst *core.SVal
		if t.Ptr || !isField {
			dst = core.FreshStruct(ss)
		} else {
			dst = cur.St.Clone()
			core.ApplyInit(ss, dst)
		}
		treeDecodeStruct(ss, n, dst, false)
		return core.Val{St: dst}
	}
	panic("bad kind")
}

// TestModelDecodeCrossCheck: RefDecode (bytes) == apache parse + tree interpretation, on
// wire-edited well-formed messages (no duplicate ids / map keys are generated).
func TestModelDecodeCrossCheck(t *testing.T) {
	cfg := core.GenCfg{Holder: true, NamedRefs: namedRefs(), MaxBytes: 2048, Twins: true, BinaryPtr: true}
	rapid.Check(t, func(rt *rapid.T) {
		c := genTV(cfg)(rt)
		msg, _ := genWireMsg(rt, c.S, c.V, fullEdit)
		a := core.FreshStruct(c.S)
		vd := core.RefDecode(c.S, msg, a)
		if vd.Kind != core.VOK || vd.GrayValue {
			return
		}
		tree, used, err := apacheRead(msg)
		if err != nil {
			rt.Fatalf("reference decoder accepts a message apache/thrift rejects: %v", err)
		}
		if used != vd.N {
			rt.Fatalf("consumed bytes differ: model %d, apache %d", vd.N, used)
		}
		b := core.FreshStruct(c.S)
		treeDecodeStruct(c.S, &tree, b, true)
		if m := core.EqualStruct(c.S, a, b, core.EqOpts{IgnoreHolder: true}, "$"); m != nil {
			rt.Fatalf("reference decoder and tree interpretation differ: %s", m)
		}
	})
}
