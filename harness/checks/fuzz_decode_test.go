package checks

// Native coverage-guided fuzzing of the decoder surface (thorough tier of C05 only).
// data[0:2] selects the destination type from a fixed table, data[2:] is the input.
// The oracle is the same three-valued classifier + allocation/crash checks as TestC05.

import (
	"encoding/binary"
	"encoding/json"
	"fmt"
	"os"
	"path/filepath"
	"reflect"
	"runtime/debug"
	"sync"
	"testing"

	"pgregory.net/rapid"

	"verif/harness/core"
)

var (
	fuzzTableOnce sync.Once
	fuzzTable     []*core.StructSpec
)

// fuzzTypes builds the table deterministically: curated named types, then anonymous
// types drawn from fixed rapid seeds.
func fuzzTypes() []*core.StructSpec {
	fuzzTableOnce.Do(func() {
		for _, n := range namedRefs() {
			if len(n) > 0 && n[0] != 'N' { // curated only: stable across universes
				fuzzTable = append(fuzzTable, core.LookupSpec(n))
			}
		}
		cfg := c05Cfg()
		cfg.NamedRefs = nil
		cfg.BigIDs = false
		gen := rapid.Custom(func(t *rapid.T) *core.StructSpec {
			rapid.Bool().Draw(t, "pad")
			return core.GenStruct(t, cfg)
		})
		for i := 0; i < 160; i++ {
			fuzzTable = append(fuzzTable, gen.Example(1000+i))
		}
	})
	return fuzzTable
}

func fuzzSeedMessages(s *core.StructSpec, i int) [][]byte {
	gen := rapid.Custom(func(t *rapid.T) []byte {
		rapid.Bool().Draw(t, "pad")
		v := core.GenStructVal(t, core.GenCfg{MaxBytes: 300, ContainerMax: 4}, s)
		return core.RefEncode(s, v)
	})
	return [][]byte{gen.Example(7000 + i), gen.Example(9000 + i)}
}

func FuzzDecode(f *testing.F) {
	debug.SetPanicOnFault(true)
	debug.SetGCPercent(-1)
	types := fuzzTypes()
	if os.Getenv("VERIF_FUZZ_EMPTY_CORPUS") == "" {
		for i, s := range types {
			for _, m := range fuzzSeedMessages(s, i) {
				f.Add(append([]byte{byte(i >> 8), byte(i)}, m...))
			}
		}
		for _, h := range [][]byte{{0x7f, 0xff, 0xff, 0xff}, {0xff, 0xff, 0xff, 0xff}, {0x80, 0, 0, 0}, {0x0f, 0, 1, 0x0c, 0x7f, 0xff, 0xff, 0xff},
			{0x0d, 0, 1, 0x0b, 0x0c, 0x40, 0, 0, 0}, {0x0c, 0, 1, 0x0c, 0, 1, 0x0c, 0, 1, 0x0c, 0, 1}, {0x0b, 0, 1, 0x7f, 0xff, 0xff, 0xf0}} {
			for i := 0; i < len(types); i += 7 {
				f.Add(append([]byte{byte(i >> 8), byte(i)}, h...))
			}
		}
	} else {
		f.Add([]byte{0, 0, 0})
	}
	w := newWorker(nil, "C05")
	r := &c05Runner{w: w, warm: map[reflect.Type]bool{}}
	f.Fuzz(func(t *testing.T, data []byte) {
		if len(data) < 2 {
			return
		}
		i := int(binary.BigEndian.Uint16(data)) % len(types)
		s := types[i]
		in := data[2:]
		if len(in) > 1<<16 {
			return
		}
		if fl := r.one(s, in, allocK(s), "fuzz"); fl != nil {
			// keep a replay file in the harness' own format next to Go's corpus entry
			if d := os.Getenv("VERIF_FAILDIR"); d != "" {
				os.MkdirAll(d, 0o755)
				rec := map[string]interface{}{"property": "C05", "failure": fl, "case": c05Case{S: s, Exact: in}, "universe": envInt("VERIF_UNIVERSE", 1)}
				b, _ := json.MarshalIndent(rec, "", " ")
				os.WriteFile(filepath.Join(d, fmt.Sprintf("fuzz-%d-%x.json", os.Getpid(), len(in))), b, 0o644)
			}
			t.Fatalf("[%s] type %d: %s", fl.Class, i, fl.Msg)
		}
	})
}

// TestFuzzConvert turns a Go fuzz corpus entry (VERIF_FUZZ_CONVERT=<file with raw data bytes>)
// into a replay file of TestC05 (printed on stdout).
func TestFuzzConvert(t *testing.T) {
	p := os.Getenv("VERIF_FUZZ_CONVERT")
	if p == "" {
		t.Skip("helper")
	}
	data, err := os.ReadFile(p)
	if err != nil || len(data) < 2 {
		t.Fatalf("bad input: %v", err)
	}
	types := fuzzTypes()
	s := types[int(binary.BigEndian.Uint16(data))%len(types)]
	b, _ := json.Marshal(map[string]interface{}{"property": "C05", "case": c05Case{S: s, Exact: data[2:]}, "universe": envInt("VERIF_UNIVERSE", 1)})
	fmt.Println("FUZZCONVERT " + string(b))
}
