package checks

import (
	"crypto/sha256"
	"encoding/json"
	"fmt"
	"os"
	"os/exec"
	"reflect"
	"runtime"
	"strings"
	"testing"

	"pgregory.net/rapid"

	"verif/harness/core"
)

// C07 — results do not depend on call history (pools and caches are clean).

type c07Step struct {
	Op      string     `json:"op"` // size, encode, decode, decodebad, invalid
	T       int        `json:"t"`  // index into the pool
	V       *core.SVal `json:"v,omitempty"`
	Msg     []byte     `json:"msg,omitempty"`
	Prior   *core.SVal `json:"prior,omitempty"`
	ByValue bool       `json:"bv,omitempty"`
	Short   int        `json:"short,omitempty"` // encode: bytes missing from the buffer (0 = large enough)
	Inv     *c13Case   `json:"inv,omitempty"`
	InvOp   string     `json:"invop,omitempty"`
	// Around: the invalid definition also reaches a pool type (index Around-1), at a field id below
	// the invalid member: a failed registration then passes through a type other pool members nest
	Around int  `json:"around,omitempty"`
	Fresh  bool `json:"fresh,omitempty"` // also compare with the same call made first in a fresh process
	// Deep (op "deep"): a decode of a synthesised message for a curated recursive type, nested within
	// the accepted depth, beyond the bound, or cut short (Cut/16 of its length): whatever the decoder
	// keeps count of while it descends must start afresh with every call
	Deep *c15Case `json:"deep,omitempty"`
	Cut  int      `json:"cut,omitempty"`
}

// stepSpec: the type a step works on.
func stepSpec(pool []*core.StructSpec, st c07Step) *core.StructSpec {
	if st.Op == "deep" && st.Deep != nil {
		return core.LookupSpec(st.Deep.Type)
	}
	return pool[st.T]
}

var c07DeepTypes = []string{"RecL", "RecSet", "RecMV", "RecMK", "RecLL", "RecH", "RecMix", "RecReq", "RecBV", "RecS"}

// genDeepBurst: a run of decodes that fail at depth (too deep, or cut inside the nesting), followed by
// decodes of messages nested as deep as is always accepted.
func genDeepBurst(t *rapid.T) []c07Step {
	var out []c07Step
	typ := rapid.SampledFrom(c07DeepTypes).Draw(t, "deeptype")
	var names []string
	for n := range c15Shapes[typ] {
		names = append(names, n)
	}
	sortStrings(names)
	mk := func(depth, cut int) c07Step {
		d := c15Case{Type: typ, UnknownAt: -1, Depth: depth}
		for i := rapid.IntRange(1, 3).Draw(t, "deepnshapes"); i > 0; i-- {
			d.Shapes = append(d.Shapes, rapid.SampledFrom(names).Draw(t, "deepshape"))
		}
		return c07Step{Op: "deep", Deep: &d, Cut: cut}
	}
	for i := rapid.IntRange(1, 12).Draw(t, "deepfails"); i > 0; i-- {
		if rapid.Bool().Draw(t, "deepcutit") {
			out = append(out, mk(rapid.IntRange(20, 48).Draw(t, "deepd"), rapid.IntRange(3, 15).Draw(t, "deepcut")))
		} else {
			out = append(out, mk(rapid.SampledFrom([]int{1024, 1030, 1100, 1500, 2500}).Draw(t, "deepover"), 0))
		}
	}
	for i := rapid.IntRange(1, 3).Draw(t, "deepoks"); i > 0; i-- {
		out = append(out, mk(rapid.IntRange(40, 48).Draw(t, "deepok"), 0))
	}
	return out
}

type c07Case struct {
	Pool  []*core.StructSpec `json:"pool"`
	Steps []c07Step          `json:"steps"`
}

// genPool draws types chosen to share scratch state: map types with by-value struct
// values, same required ids, holders, wrappers that nest a fresh type.
func genPool(t *rapid.T) []*core.StructSpec {
	// Twins: fields of one Go type whose schemas differ in one node, possibly several container levels
	// down - whichever is built first must not decide for the other
	cfg := core.GenCfg{Holder: true, MaxFields: 5, MaxNest: 1, MaxBytes: 1024, ContainerMax: 5, NamedRefs: namedRefs(), RequiredBias: 25, Twins: true}
	base := core.GenStruct(t, core.GenCfg{MaxFields: 4, MaxNest: 1, Holder: true, RequiredBias: 30, NoZeroSizeStruct: true})
	if len(base.Fields) == 0 {
		base.Fields = append(base.Fields, &core.FieldSpec{Name: "B_1", ID: 1, Type: &core.TypeSpec{Kind: core.KI32}})
	}
	bt := func(ptr bool) *core.TypeSpec { return &core.TypeSpec{Kind: core.KStruct, Struct: base, Ptr: ptr} }
	str := &core.TypeSpec{Kind: core.KString}
	i32 := &core.TypeSpec{Kind: core.KI32}
	pool := []*core.StructSpec{
		base,
		{Fields: []*core.FieldSpec{{Name: "W_1", ID: 1, Req: core.Optional, Type: bt(true)}, {Name: "W_2", ID: 2, Type: &core.TypeSpec{Kind: core.KList, Elem: bt(true)}}}},
		{Fields: []*core.FieldSpec{{Name: "M_1", ID: 1, Type: &core.TypeSpec{Kind: core.KMap, Key: str, Elem: bt(false)}}}},
		{Fields: []*core.FieldSpec{{Name: "N_5", ID: 5, Type: &core.TypeSpec{Kind: core.KMap, Key: str, Elem: bt(false)}}, {Name: "N_2", ID: 2, Req: core.Required, Type: i32}}, Holder: true},
		{Fields: []*core.FieldSpec{{Name: "R_64", ID: 64, Req: core.Required, Type: i32}, {Name: "R_2", ID: 2, Req: core.Required, Type: str}, {Name: "R_3", ID: 3, Type: &core.TypeSpec{Kind: core.KList, Elem: bt(false)}}}},
		{Fields: []*core.FieldSpec{{Name: "Q_64", ID: 64, Req: core.Required, Type: str}, {Name: "Q_2", ID: 2, Req: core.Optional, GoPtr: true, Type: i32}, {Name: "Q_7", ID: 7, Type: &core.TypeSpec{Kind: core.KMap, Key: i32, Elem: bt(true)}}}, Holder: true},
	}
	// low required id, non-required field in a higher presence-set word that R/Q require
	pool = append(pool, &core.StructSpec{Fields: []*core.FieldSpec{{Name: "P_1", ID: 1, Req: core.Required, Type: i32},
		{Name: "P_64", ID: 64, Req: core.Optional, Type: str}, {Name: "P_255", ID: 255, Type: i32}}})
	// two types whose fields have the same Go types and schemas that differ only two container levels
	// down: whichever is used first, the other keeps its own wire types
	i64 := &core.TypeSpec{Kind: core.KI64}
	deep := func(inner core.Kind, name string) *core.StructSpec {
		return &core.StructSpec{Fields: []*core.FieldSpec{
			{Name: name + "_1", ID: 1, Type: &core.TypeSpec{Kind: core.KList, Elem: &core.TypeSpec{Kind: core.KList, Elem: &core.TypeSpec{Kind: inner, Elem: i32}}}},
			{Name: name + "_2", ID: 2, Type: &core.TypeSpec{Kind: core.KMap, Key: str, Elem: &core.TypeSpec{Kind: core.KMap, Key: str, Elem: &core.TypeSpec{Kind: inner, Elem: i64}}}},
		}}
	}
	pool = append(pool, deep(core.KList, "DeepL"), deep(core.KSet, "DeepS"))
	for i := rapid.IntRange(1, 4).Draw(t, "nextra"); i > 0; i-- {
		pool = append(pool, core.GenStruct(t, cfg))
	}
	for _, n := range []string{"MutA", "MutB", "MutC", "ValOut", "DefNest", "ReqNest", "RecH"} {
		if rapid.IntRange(0, 3).Draw(t, "named") == 0 && core.LookupSpec(n) != nil {
			pool = append(pool, core.LookupSpec(n))
		}
	}
	// first use order matters: shuffle so wrappers come before or after what they nest
	return rapid.Permutation(pool).Draw(t, "poolorder")
}

func genC07(t *rapid.T) c07Case {
	c := c07Case{Pool: genPool(t)}
	vcfg := core.GenCfg{MaxBytes: 1024, ContainerMax: 5, HolderBytes: true}
	n := rapid.IntRange(6, 24).Draw(t, "nsteps")
	// the types built to share scratch state (maps of by-value structs, same required ids, holders)
	// get half of the steps, whatever else is in the pool
	var sharing []int
	for i, s := range c.Pool {
		if len(s.Fields) > 0 && s.Name == "" {
			switch s.Fields[0].Name[:2] {
			case "W_", "M_", "N_", "R_", "Q_", "P_":
				sharing = append(sharing, i)
			}
		}
	}
	for i := 0; i < n; i++ {
		st := c07Step{T: rapid.IntRange(0, len(c.Pool)-1).Draw(t, "t")}
		if len(sharing) > 0 && rapid.Bool().Draw(t, "sharing") {
			st.T = sharing[rapid.IntRange(0, len(sharing)-1).Draw(t, "tsharing")]
		}
		s := c.Pool[st.T]
		st.Op = rapid.SampledFrom([]string{"size", "encode", "encode", "decode", "decode", "decode", "decodebad", "decodebad", "invalid", "gc"}).Draw(t, "op")
		switch st.Op {
		case "size", "encode":
			st.V = core.GenStructVal(t, vcfg, s)
			st.ByValue = rapid.Bool().Draw(t, "bv")
			if st.Op == "encode" && rapid.IntRange(0, 3).Draw(t, "short") == 0 {
				st.Short = rapid.IntRange(1, 12).Draw(t, "nshort")
			}
		case "decode", "decodebad":
			v := core.GenStructVal(t, vcfg, s)
			st.Msg, _ = genWireMsg(t, s, v, wireEditCfg{Shuffle: true, Insert: true, Drop: true, MaxInsert: 2})
			if st.Op == "decodebad" && len(st.Msg) > 1 {
				// cut or corrupt somewhere inside: typically midway through a container
				lens, _ := collectSites(st.Msg)
				cc := c05Case{S: s, Base: st.Msg}
				m := mutation{Kind: rapid.SampledFrom([]string{"prefix", "prefix", "len", "byte"}).Draw(t, "mk"),
					Pos: rapid.IntRange(0, 1<<20).Draw(t, "mp"), Val: int64(rapid.IntRange(0, len(lenVals)-1).Draw(t, "mv"))}
				if m.Kind == "byte" {
					m.Val = int64(rapid.SampledFrom([]int{0, 1, 2, 11, 12, 13, 15, 0x7f, 0xff}).Draw(t, "mbv"))
				}
				st.Msg, _ = applyMutation(&cc, m, lens)
			}
			if rapid.IntRange(0, 2).Draw(t, "prior") == 0 {
				st.Prior = core.GenStructVal(t, core.GenCfg{MaxBytes: 512, ContainerMax: 4}, s)
			}
		case "invalid":
			ic := c13Case{Salt: rapid.IntRange(0, 1<<20).Draw(t, "isalt"), Pos: rapid.IntRange(0, 2).Draw(t, "ipos")}
			ic.Class = c13Classes[(rapid.IntRange(0, len(c13Classes)-1).Draw(t, "iclass")+ic.Salt)%len(c13Classes)].Name
			if rapid.Bool().Draw(t, "iwrap") {
				ic.Wraps = []string{rapid.SampledFrom(c13Wraps).Draw(t, "iw")}
			}
			st.Inv = &ic
			st.InvOp = rapid.SampledFrom([]string{"size", "encode", "decode"}).Draw(t, "iop")
			if rapid.Bool().Draw(t, "iaround") {
				st.Around = 1 + rapid.IntRange(0, len(c.Pool)-1).Draw(t, "iaroundt")
			}
		}
		st.Fresh = rapid.IntRange(0, 9).Draw(t, "fresh") == 0
		c.Steps = append(c.Steps, st)
	}
	// a pair placed somewhere in the history: a decode of a densely populated value that ends early
	// inside its containers, then a decode of a sparse value of the same type (whatever the first one
	// left in pooled scratch state shows where the second message says nothing)
	if len(sharing) > 0 && rapid.Bool().Draw(t, "pair") {
		ti := sharing[rapid.IntRange(0, len(sharing)-1).Draw(t, "pairt")]
		s := c.Pool[ti]
		dense := core.GenStructVal(t, core.GenCfg{NoNil: true, CountChoices: []int{2, 3}, MaxBytes: 1024}, s)
		dm := core.RefEncode(s, dense)
		if cuts := boundaryCuts(dm); len(cuts) > 2 {
			dm = dm[:cuts[len(cuts)/3+rapid.IntRange(0, len(cuts)-len(cuts)/3-1).Draw(t, "paircut")]]
			sparse := core.GenStructVal(t, core.GenCfg{NoNil: true, CountChoices: []int{1, 2}, MaxBytes: 512}, s)
			sm, _ := genWireMsg(t, s, sparse, wireEditCfg{Drop: true})
			at := rapid.IntRange(0, len(c.Steps)).Draw(t, "pairat")
			pair := []c07Step{{Op: "decodebad", T: ti, Msg: dm}, {Op: "decode", T: ti, Msg: sm}}
			c.Steps = append(c.Steps[:at:at], append(pair, c.Steps[at:]...)...)
		}
	}
	// the same message once more, right away, into a destination of its own (a retry): the two
	// results must not share anything either
	for k := rapid.IntRange(0, 2).Draw(t, "nrepeat"); k > 0 && len(c.Steps) > 0; k-- {
		at := rapid.IntRange(0, len(c.Steps)-1).Draw(t, "repeatat")
		if st := c.Steps[at]; st.Op == "decode" || st.Op == "decodebad" {
			c.Steps = append(c.Steps[:at+1:at+1], append([]c07Step{st}, c.Steps[at+1:]...)...)
		}
	}
	if rapid.IntRange(0, 3).Draw(t, "deepburst") == 0 {
		burst := genDeepBurst(t)
		at := rapid.IntRange(0, len(c.Steps)).Draw(t, "deepat")
		c.Steps = append(c.Steps[:at:at], append(burst, c.Steps[at:]...)...)
	}
	return c
}

// stepResult is what a call returned, in a process-independent rendering.
type stepResult struct {
	N    int    `json:"n"`
	Err  string `json:"err"`
	Out  string `json:"out"`  // canonical output bytes (hash) for size/encode
	Dest string `json:"dest"` // canonical destination (hash) for decode
}

func hashStr(s string) string { return fmt.Sprintf("%x", sha256.Sum256([]byte(s)))[:24] }

// execStep performs the call of one step and checks it against the stateless model.
func execStep(pool []*core.StructSpec, st c07Step) (stepResult, bool, *Failure) {
	var res stepResult
	if st.Op == "gc" {
		// two collections empty every sync.Pool: the calls that follow start from new pool objects,
		// and whatever earlier calls left behind must not be needed (or found) any more
		runtime.GC()
		runtime.GC()
		return res, true, nil
	}
	if st.Op == "invalid" {
		chain, err := buildInvalidChain(*st.Inv)
		if err != nil {
			return res, true, nil
		}
		top := chain[len(chain)-1]
		if st.Around > 0 && st.Around <= len(pool) {
			pt := core.Bind(pool[st.Around-1]).Type
			var built reflect.Type
			func() {
				defer func() { recover() }()
				built = reflect.StructOf([]reflect.StructField{
					{Name: "Near", Type: reflect.PointerTo(pt), Tag: `frugal:"1,optional,Near"`},
					{Name: "NearL", Type: reflect.SliceOf(reflect.PointerTo(pt)), Tag: `frugal:"2,default,list<Near>"`},
					{Name: "Bad", Type: reflect.PointerTo(top), Tag: `frugal:"3,optional,Bad"`},
				})
			}()
			if built != nil {
				top = built
			}
		}
		msg, f := expectRejected(st.InvOp, top, false)
		res.Err = msg
		if st.InvOp == "size" {
			res.Err = ""
		}
		return res, false, f
	}
	s := stepSpec(pool, st)
	b := core.Bind(s)
	if st.Op == "deep" {
		st.Msg, _ = buildDeep(*st.Deep)
		if st.Cut > 0 {
			st.Msg = st.Msg[:len(st.Msg)*st.Cut/16]
		}
	}
	switch st.Op {
	case "size", "encode":
		src := b.NewValue(st.V)
		c07LastDest, c07LastBound, c07LastSpec = src, b, s // the value handed to size/encode is kept like a destination
		var arg interface{} = src.Interface()
		if st.ByValue {
			arg = src.Elem().Interface()
		}
		sz, f := fSize(arg)
		if f != nil {
			return res, false, f
		}
		alts := core.RefEncodeAll(s, st.V, 10)
		okSize := alts == nil
		for _, a := range alts {
			if len(a) == sz {
				okSize = true
			}
		}
		if !okSize {
			return res, false, failf("size-wrong", "EncodedSize=%d, reference encoding has %d bytes", sz, len(alts[0]))
		}
		res.N = sz
		if st.Op == "size" {
			return res, true, nil
		}
		l := sz - st.Short
		if l < 0 {
			l = 0
		}
		buf := make([]byte, l)
		n, err, f := fEncode(buf, arg)
		if f != nil {
			return res, false, f
		}
		res.N = n
		if l < sz {
			if err == nil {
				return res, false, failf("short-buffer-accepted", "buffer %d < size %d accepted", l, sz)
			}
			res.Err = err.Error()
			return res, false, nil
		}
		if err != nil || n != sz {
			return res, false, failf("encode-error", "n=%d size=%d err=%v", n, sz, err)
		}
		ok, want, perr := matchesRef(buf[:n], s, st.V)
		if perr != nil || !ok {
			return res, false, failf("encoding-differs", "output differs from the reference encoding (%v)\n got: %s\nwant: %s", perr, hexs(buf[:n]), hexs(want))
		}
		co, _ := core.Canon(buf[:n])
		res.Out = hashStr(string(co))
		return res, true, nil
	case "decode", "decodebad", "deep":
		var dest reflect.Value
		if st.Prior != nil {
			dest = b.NewValue(st.Prior)
		} else {
			dest = newDest(b)
		}
		verdict, f := checkDecodeAgainstModel(decCase{S: s, Msg: st.Msg, Prior: st.Prior})
		if f != nil {
			return res, false, f
		}
		// the same call once more, to render its outcome (including a failed call's n and partial destination)
		n, err, f := fDecode(append([]byte{}, st.Msg...), dest.Interface())
		if f != nil {
			return res, false, f
		}
		res.N = n
		if err != nil {
			res.Err = err.Error()
		}
		var lifted *core.SVal
		if lf := safely("reading the destination", func() { lifted = b.Lift(dest.Elem()) }); lf != nil {
			return res, false, lf
		}
		res.Dest = hashStr(core.CanonStruct(s, lifted))
		c07LastDest, c07LastBound, c07LastSpec = dest, b, s
		if os.Getenv("VERIF_C07_DEBUG") != "" {
			fmt.Println("C07DEST", core.CanonStruct(s, lifted))
		}
		return res, verdict.Kind == core.VOK, nil
	}
	return res, true, nil
}

// the destination of the decode step executed last (kept by runC07: what a call has stored, also
// a failing one, must read the same after every later call)
var (
	c07LastDest  reflect.Value
	c07LastBound *core.Bound
	c07LastSpec  *core.StructSpec
)

type c07Kept struct {
	dest reflect.Value
	b    *core.Bound
	s    *core.StructSpec
	hash string
	step int
	ok   bool
}

// freshResult runs one step first in a brand-new process.
func freshResult(pool []*core.StructSpec, st c07Step) (stepResult, error) {
	js, _ := json.Marshal(c07Case{Pool: pool, Steps: []c07Step{st}})
	cmd := exec.Command(os.Args[0], "-test.run", "^TestC07Single$")
	cmd.Env = append(os.Environ(), "VERIF_C07_SINGLE="+string(js), "VERIF_OUT=", "VERIF_FAILDIR=", "VERIF_JOURNAL=", "VERIF_REPLAY=")
	out, err := cmd.CombinedOutput()
	var res stepResult
	for _, line := range strings.Split(string(out), "\n") {
		if strings.HasPrefix(line, "C07RESULT ") {
			if jerr := json.Unmarshal([]byte(line[len("C07RESULT "):]), &res); jerr == nil {
				return res, nil
			}
		}
	}
	return res, fmt.Errorf("fresh process gave no result (%v): %.600s", err, out)
}

func TestC07Single(t *testing.T) {
	js := os.Getenv("VERIF_C07_SINGLE")
	if js == "" {
		t.Skip("helper of TestC07")
	}
	var c c07Case
	if err := json.Unmarshal([]byte(js), &c); err != nil {
		t.Fatal(err)
	}
	res, _, f := execStep(c.Pool, c.Steps[0])
	if f != nil {
		res.Err = "FAILURE " + f.Class
	}
	b, _ := json.Marshal(res)
	fmt.Println("C07RESULT " + string(b))
}

func runC07(w *worker) func(c c07Case) *Failure {
	return func(c c07Case) *Failure {
		failedBefore := false
		interesting := false
		freshRuns := 0
		var kept []c07Kept
		pool := c.Pool
		for i, st := range c.Steps {
			res, ok, f := execStep(c.Pool, st)
			if f != nil {
				f.Msg = fmt.Sprintf("step %d/%d (%s on pool type %d): %s", i, len(c.Steps), st.Op, st.T, f.Msg)
				return f
			}
			if failedBefore && ok && st.Op != "gc" {
				interesting = true
			}
			// earlier destinations, of successful and of failed decodes, still read as they did
			for _, k := range kept {
				var h string
				if lf := safely("reading an earlier destination", func() { h = hashStr(core.CanonStruct(k.s, k.b.Lift(k.dest.Elem()))) }); lf != nil {
					lf.Msg = fmt.Sprintf("step %d: destination of step %d: %s", i, k.step, lf.Msg)
					return lf
				}
				if h != k.hash {
					return failf("earlier-destination-changed", "after step %d (%s on pool type %d) the destination (or encoded value) of step %d (which had %s) no longer reads as it did right after that call", i, st.Op, st.T, k.step, map[bool]string{true: "succeeded", false: "failed"}[k.ok])
				}
			}
			if (st.Op == "size" || st.Op == "encode") && c07LastDest.IsValid() {
				// a value that was sized or encoded is the caller's: it reads the same after every later call
				var h string
				if lf := safely("reading an encoded value", func() { h = hashStr(core.CanonStruct(c07LastSpec, c07LastBound.Lift(c07LastDest.Elem()))) }); lf != nil {
					return lf
				}
				kept = append(kept, c07Kept{c07LastDest, c07LastBound, c07LastSpec, h, i, true})
				if len(kept) > 5 {
					kept = kept[1:]
				}
				c07LastDest = reflect.Value{}
			}
			if (st.Op == "decode" || st.Op == "decodebad" || st.Op == "deep") && c07LastDest.IsValid() && !stepSpec(pool, st).AnyNoCopy() {
				kept = append(kept, c07Kept{c07LastDest, c07LastBound, c07LastSpec, res.Dest, i, ok})
				if len(kept) > 5 {
					kept = kept[1:]
				}
				c07LastDest = reflect.Value{}
			}
			if !ok {
				failedBefore = true
			}
			// the caller owns what earlier calls returned: now and then it writes into the binaries of
			// the oldest destination still kept; nobody else's result may notice (checked after the next step
			// and at the end)
			if i%3 == 2 && len(kept) > 1 {
				k := &kept[0]
				if lf := safely("overwriting the binaries of an earlier destination", func() {
					if scribbleBinaries(k.s, k.dest.Elem()) > 0 {
						k.hash = hashStr(core.CanonStruct(k.s, k.b.Lift(k.dest.Elem())))
					}
				}); lf != nil {
					return lf
				}
			}
			// (b) fresh-process differential: failing calls (whose n / partial destination the model
			// leaves open) and a sample of the others
			if (st.Fresh || (!ok && st.Op != "invalid")) && freshRuns < 4 {
				freshRuns++
				fr, err := freshResult(c.Pool, st)
				if err != nil {
					w.label("fresh-process-unavailable")
					continue
				}
				if fr != res {
					return failf("history-dependent", "step %d (%s on pool type %d) returned %+v after %d earlier calls, but %+v when made first in a fresh process", i, st.Op, st.T, res, i, fr)
				}
				w.label("fresh-process-compared")
			}
		}
		for _, k := range kept {
			var h string
			if lf := safely("reading an earlier destination", func() { h = hashStr(core.CanonStruct(k.s, k.b.Lift(k.dest.Elem()))) }); lf != nil {
				return lf
			}
			if h != k.hash {
				return failf("earlier-destination-changed", "at the end of the history the destination of the decode of step %d no longer reads as it did (after the caller wrote into the binaries of another, earlier destination)", k.step)
			}
		}
		var ops []string
		for _, st := range c.Steps {
			ops = append(ops, fmt.Sprintf("%s%d", st.Op, st.T))
		}
		key := strings.Join(ops, ",")
		for _, s := range c.Pool {
			key += s.Sig()
		}
		var sigs []string
		for _, s := range c.Pool {
			sigs = append(sigs, s.Sig())
		}
		labels := []string{fmt.Sprintf("steps:%d", len(c.Steps)/8*8)}
		for _, st := range c.Steps {
			if st.Op == "deep" {
				labels = append(labels, "deep-burst")
				break
			}
		}
		w.count(interesting, key, map[string]interface{}{"history": ops, "pool": sigs}, labels...)
		return nil
	}
}

func TestC07(t *testing.T) {
	w := newWorker(t, "C07")
	w.maxSamp = 3
	drive(t, caseRunner[c07Case]{w: w, gen: genC07, run: runC07(w), journalled: true})
}
