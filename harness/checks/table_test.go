package checks

// The finite "table" sub-domain: every map key kind x value form and every list/set
// element form, each of which selects its own specialised encode routine. Cells are
// drawn uniformly; the evidence lists the cells actually hit.

import (
	"fmt"

	"pgregory.net/rapid"

	"verif/harness/core"
)

var tableKeyKinds = []core.Kind{core.KBool, core.KI8, core.KI16, core.KI32, core.KI64, core.KDouble, core.KString, core.KEnum, core.KStruct}

// value forms: 8 scalars, binary, *struct, struct by value, map, set, list
var tableValForms = []string{"bool", "i8", "i16", "i32", "i64", "double", "string", "enum", "binary", "*struct", "struct", "map", "set", "list"}

var tableCounts = []int{0, 1, 2, 8, 9, 27, 55, 111, 130}

func tableScalar(k core.Kind) *core.TypeSpec {
	if k == core.KEnum {
		return &core.TypeSpec{Kind: core.KEnum, Named: "E3"}
	}
	return &core.TypeSpec{Kind: k}
}

func tableSmallStruct(ptr bool) *core.TypeSpec {
	s := &core.StructSpec{Fields: []*core.FieldSpec{
		{Name: "A_1", ID: 1, Type: &core.TypeSpec{Kind: core.KI32}},
		{Name: "B_2", ID: 2, Req: core.Optional, GoPtr: true, Type: &core.TypeSpec{Kind: core.KString}},
		{Name: "C_3", ID: 3, Req: core.Optional, Type: &core.TypeSpec{Kind: core.KList, Elem: &core.TypeSpec{Kind: core.KI16}}},
	}}
	return &core.TypeSpec{Kind: core.KStruct, Struct: s, Ptr: ptr}
}

func tableForm(t *rapid.T, form string) *core.TypeSpec {
	inner := func() *core.TypeSpec {
		ks := []core.Kind{core.KBool, core.KI8, core.KI16, core.KI32, core.KI64, core.KDouble, core.KString, core.KEnum, core.KBinary}
		return tableScalar(ks[rapid.IntRange(0, len(ks)-1).Draw(t, "inner")])
	}
	switch form {
	case "binary":
		return &core.TypeSpec{Kind: core.KBinary}
	case "*struct":
		return tableSmallStruct(true)
	case "struct":
		return tableSmallStruct(false)
	case "map":
		k := tableScalar(tableKeyKinds[rapid.IntRange(0, 7).Draw(t, "innerkey")])
		return &core.TypeSpec{Kind: core.KMap, Key: k, Elem: inner()}
	case "set":
		return &core.TypeSpec{Kind: core.KSet, Elem: inner()}
	case "list":
		return &core.TypeSpec{Kind: core.KList, Elem: inner()}
	}
	for _, k := range []core.Kind{core.KBool, core.KI8, core.KI16, core.KI32, core.KI64, core.KDouble, core.KString, core.KEnum} {
		if k.String() == form {
			return tableScalar(k)
		}
	}
	panic("bad form " + form)
}

// genTableTV draws one table cell: a struct whose interesting field is the cell's
// container, between two scalar fields, with the container size from tableCounts.
func genTableTV(t *rapid.T) (TV, string) {
	var ct *core.TypeSpec
	var cell string
	// rapid favours small draws; a wide salt spreads the cell choice evenly over the table
	salt := rapid.IntRange(0, 1<<30).Draw(t, "cellsalt")
	if rapid.IntRange(0, 2).Draw(t, "cellkind") > 0 {
		ki := (rapid.IntRange(0, len(tableKeyKinds)-1).Draw(t, "cellkey") + salt) % len(tableKeyKinds)
		vf := tableValForms[(rapid.IntRange(0, len(tableValForms)-1).Draw(t, "cellval")+salt/16)%len(tableValForms)]
		var key *core.TypeSpec
		if tableKeyKinds[ki] == core.KStruct {
			key = tableSmallStruct(true)
		} else {
			key = tableScalar(tableKeyKinds[ki])
		}
		ct = &core.TypeSpec{Kind: core.KMap, Key: key, Elem: tableForm(t, vf)}
		cell = fmt.Sprintf("cell:map<%s:%s>", tableKeyKinds[ki], vf)
	} else {
		vf := tableValForms[(rapid.IntRange(0, len(tableValForms)-1).Draw(t, "cellelem")+salt)%len(tableValForms)]
		k := core.KList
		if rapid.Bool().Draw(t, "cellset") {
			k = core.KSet
		}
		ct = &core.TypeSpec{Kind: k, Elem: tableForm(t, vf)}
		cell = fmt.Sprintf("cell:%s<%s>", k, vf)
	}
	req := core.Req(rapid.IntRange(0, 2).Draw(t, "cellreq"))
	s := &core.StructSpec{Fields: []*core.FieldSpec{
		{Name: "Pre_1", ID: 1, Type: &core.TypeSpec{Kind: core.KI16}},
		{Name: "Cell_2", ID: 2, Req: req, Type: ct},
		{Name: "Post_3", ID: 3, Type: &core.TypeSpec{Kind: core.KString}},
	}}
	cnt := tableCounts[(rapid.IntRange(0, len(tableCounts)-1).Draw(t, "cellcount")+salt/256)%len(tableCounts)]
	cfg := core.GenCfg{CountChoices: []int{cnt, cnt, 2, 1}, MaxBytes: 64 << 10, NoNil: cnt > 0}
	v := core.GenStructVal(t, cfg, s)
	return TV{S: s, V: v}, fmt.Sprintf("%s#%d", cell, cnt)
}
