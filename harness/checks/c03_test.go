package checks

import (
	"fmt"
	"reflect"
	"strings"
	"testing"

	"pgregory.net/rapid"

	"verif/harness/core"
)

// C03 — the decoder reads every well-formed message as the reference decoder does.

type decCase struct {
	S     *core.StructSpec `json:"s"`
	Msg   []byte           `json:"msg"`
	Prior *core.SVal       `json:"prior,omitempty"` // nil: fresh destination
	Edits map[string]int   `json:"edits,omitempty"`
}

func c03Cfg() core.GenCfg {
	c := c01Cfg()
	c.RequiredBias = 8
	c.MaxBytes = 4096
	return c
}

func genC03(t *rapid.T) decCase {
	cfg := c03Cfg()
	tv := genTV(cfg)(t)
	c := decCase{S: tv.S}
	c.Msg, c.Edits = genWireMsg(t, tv.S, tv.V, fullEdit)
	if rapid.IntRange(0, 2).Draw(t, "prior") == 0 {
		c.Prior = core.GenStructVal(t, cfg, tv.S)
	}
	return c
}

// checkDecodeAgainstModel runs DecodeObject and compares with the reference decoder.
// It returns the verdict for labelling. strictErr: an error verdict requires an error.
func checkDecodeAgainstModel(c decCase) (core.Verdict, *Failure) {
	b := core.Bind(c.S)
	var dest reflect.Value
	var exp *core.SVal
	if c.Prior != nil {
		dest = b.NewValue(c.Prior)
		exp = c.Prior.Clone()
	} else {
		dest = newDest(b)
		exp = core.FreshStruct(c.S)
	}
	verdict := core.RefDecode(c.S, c.Msg, exp)
	in := append([]byte{}, c.Msg...)
	n, err, f := fDecode(in, dest.Interface())
	if f != nil {
		return verdict, f
	}
	if string(in) != string(c.Msg) {
		return verdict, failf("input-modified", "DecodeObject modified its input buffer")
	}
	if ferr := b.CheckExtras(dest.Elem()); ferr != nil {
		return verdict, failf("ignored-field-touched", "decode: %v", ferr)
	}
	switch verdict.Kind {
	case core.VOK:
		if err != nil {
			return verdict, failf("wellformed-rejected", "well-formed message rejected: %v; msg %s", err, hexs(c.Msg))
		}
	case core.VErr:
		if err == nil {
			return verdict, failf("malformed-accepted", "model: %s; but DecodeObject succeeded (n=%d); msg %s", verdict.Why, n, hexs(c.Msg))
		}
		if len(verdict.MissingRequired) > 0 {
			if f := checkRequiredErr(err, verdict); f != nil {
				return verdict, f
			}
		} else if verdict.DepthErr && protoErrType(err) != peDepthLimit {
			return verdict, failf("depth-error-kind", "nesting beyond the limit must give DEPTH_LIMIT, got: %v", err)
		}
		return verdict, nil
	case core.VGray:
		if err != nil {
			if verdict.MaxDepth > core.DepthSure && !verdict.KindGray() && protoErrType(err) != peDepthLimit && len(verdict.MissingRequired) == 0 {
				return verdict, failf("depth-error-kind", "a well-formed message nested %d levels may only be rejected with DEPTH_LIMIT, got: %v", verdict.MaxDepth, err)
			}
			return verdict, nil
		}
	}
	// success: n and value
	if herr := b.CheckHeaders(dest.Elem()); herr != nil {
		return verdict, failf("malformed-slice", "decoded object holds a malformed slice header: %v; msg %s", herr, hexs(c.Msg))
	}
	if n != verdict.N {
		return verdict, failf("consumed-wrong", "DecodeObject returned n=%d, the top-level STOP ends at %d (input %d bytes)", n, verdict.N, len(c.Msg))
	}
	if verdict.GrayValue {
		return verdict, nil
	}
	got := b.Lift(dest.Elem())
	if m := core.EqualStruct(c.S, got, exp, core.EqOpts{}, "$"); m != nil {
		return verdict, failf("decoded-value-differs", "destination differs from the reference decoder (got vs want) %s; msg %s", m, hexs(c.Msg))
	}
	return verdict, nil
}

func checkRequiredErr(err error, v core.Verdict) *Failure {
	if v.KindGray() {
		return nil // the input also has junk the properties leave open: any error will do
	}
	if v.MaxDepth > core.DepthSure && protoErrType(err) == peDepthLimit {
		return nil
	}
	if protoErrType(err) != peInvalidData {
		return failf("required-error-kind", "missing required field(s) %v must give an INVALID_DATA protocol error, got %T: %v", v.MissingRequired, err, err)
	}
	for _, name := range v.MissingRequired {
		if strings.Contains(err.Error(), fmt.Sprintf("%q", name)) || strings.Contains(err.Error(), name) {
			return nil
		}
	}
	return failf("required-error-name", "error does not name a missing required field (missing: %v): %v", v.MissingRequired, err)
}

func runC03(w *worker) func(c decCase) *Failure {
	return func(c decCase) *Failure {
		verdict, f := checkDecodeAgainstModel(c)
		if f != nil {
			return f
		}
		labels := []string{"verdict:" + verdict.Kind.String()}
		if verdict.GrayValue {
			labels = append(labels, "gray-value:"+verdict.GrayWhy)
		}
		for k := range c.Edits {
			labels = append(labels, "edit:"+k)
		}
		if c.Prior != nil {
			labels = append(labels, "prior-contents")
		}
		if verdict.OutOfOrder {
			labels = append(labels, "out-of-order")
		}
		if verdict.Skipped > 0 {
			labels = append(labels, "skipped-fields")
		}
		nontriv := verdict.Kind == core.VOK && verdict.Known >= 1 &&
			(verdict.Skipped > 0 || verdict.OutOfOrder || c.Edits["trailing"] > 0)
		w.count(nontriv, c.S.Sig()+string(c.Msg), c, labels...)
		return nil
	}
}

func TestC03(t *testing.T) {
	w := newWorker(t, "C03")
	drive(t, caseRunner[decCase]{w: w, gen: genC03, run: runC03(w), journalled: true})
}
