package checks

import (
	"fmt"
	"reflect"
	"runtime"
	"sort"
	"testing"
	"unsafe"

	"pgregory.net/rapid"

	"verif/harness/core"
)

// C14 — nocopy fields view the input buffer exactly; nothing else does.

func c14Cfg() core.GenCfg {
	c := c01Cfg()
	c.NoCopy = true
	c.MaxBytes = 4096
	c.RequiredBias = 5
	return c
}

func genC14(t *rapid.T) decCase {
	cfg := c14Cfg()
	var s *core.StructSpec
	switch rapid.IntRange(0, 6).Draw(t, "which") {
	case 0:
		s = core.LookupSpec("NcIn")
	case 1:
		s = core.LookupSpec("NcOut")
	case 2:
		s = core.LookupSpec("NcDef")
	case 3:
		s = core.LookupSpec("NcDefOut")
	default:
		s = genTV(cfg)(t).S
	}
	v := core.GenStructVal(t, cfg, s)
	equaliseDefaults(t, s, v, 0)
	c := decCase{S: s}
	c.Msg, c.Edits = genWireMsg(t, s, v, wireEditCfg{Shuffle: true, Insert: true, Trailing: true, MaxInsert: 2})
	if rapid.IntRange(0, 29).Draw(t, "bigmsg") == 0 {
		// a message of more than a megabyte around the same fields: one long unknown string in front
		id := 31000
		for s.ByID(uint16(id)) != nil {
			id++
		}
		n := rapid.SampledFrom([]int{1 << 20, 1<<20 + 1, 1<<20 + 4096, 3 << 20}).Draw(t, "bigmsglen")
		big := make([]byte, 7+n, 7+n+len(c.Msg))
		big[0], big[1], big[2] = 0x0b, byte(id>>8), byte(id)
		big[3], big[4], big[5], big[6] = byte(n>>24), byte(n>>16), byte(n>>8), byte(n)
		for i := 7; i < len(big); i++ {
			big[i] = byte('A' + i%26)
		}
		c.Msg = append(big, c.Msg...)
		if c.Edits == nil {
			c.Edits = map[string]int{}
		}
		c.Edits["message>1MiB"]++
	}
	return c
}

type strRef struct {
	path   string
	data   uintptr
	len    int
	cap    int
	binary bool
	nocopy bool
	ptr    unsafe.Pointer // first byte (nil when empty)
}

func (r strRef) bytes() []byte {
	if r.len == 0 || r.ptr == nil {
		return nil
	}
	return unsafe.Slice((*byte)(r.ptr), r.len)
}

// collectStrings walks the decoded object and lists every string and binary in it.
func collectStrings(s *core.StructSpec, rv reflect.Value, path string, out *[]strRef) {
	b := core.Bind(s)
	var val func(ts *core.TypeSpec, rv reflect.Value, p string, nocopy bool)
	val = func(ts *core.TypeSpec, rv reflect.Value, p string, nocopy bool) {
		switch ts.Kind {
		case core.KString:
			str := rv.String()
			*out = append(*out, strRef{p, uintptr(unsafe.Pointer(unsafe.StringData(str))), len(str), len(str), false, nocopy, unsafe.Pointer(unsafe.StringData(str))})
		case core.KBinary:
			if rv.IsNil() {
				return
			}
			bs := rv.Bytes()
			*out = append(*out, strRef{p, uintptr(unsafe.Pointer(unsafe.SliceData(bs))), len(bs), cap(bs), true, nocopy, unsafe.Pointer(unsafe.SliceData(bs))})
		case core.KList, core.KSet:
			for i := 0; i < rv.Len(); i++ {
				val(ts.Elem, rv.Index(i), fmt.Sprintf("%s[%d]", p, i), false)
			}
		case core.KMap:
			it := rv.MapRange()
			for it.Next() {
				val(ts.Key, it.Key(), p+"{key}", false)
				val(ts.Elem, it.Value(), p+"{val}", false)
			}
		case core.KStruct:
			if ts.Ptr {
				if rv.IsNil() {
					return
				}
				rv = rv.Elem()
			}
			collectStrings(ts.SS(), rv, p, out)
		}
	}
	for _, f := range s.Fields {
		fv := rv.Field(b.FieldIndex(f.ID))
		if f.GoPtr {
			if fv.IsNil() {
				continue
			}
			fv = fv.Elem()
		}
		val(f.Type, fv, path+"."+f.Name, f.NoCopy)
	}
}

func runC14(w *worker) func(c decCase) *Failure {
	return func(c decCase) *Failure {
		b := core.Bind(c.S)
		dest := newDest(b)
		exp := core.FreshStruct(c.S)
		verdict := core.RefDecode(c.S, c.Msg, exp)
		// the input buffer: exact capacity, guarded by neighbours we own
		block := make([]byte, len(c.Msg)+128)
		buf := block[64 : 64+len(c.Msg) : 64+len(c.Msg)]
		copy(buf, c.Msg)
		n, err, f := fDecode(buf, dest.Interface())
		if f != nil {
			return f
		}
		if verdict.Kind != core.VOK || verdict.GrayValue {
			w.count(false, "", nil, "verdict:"+verdict.Kind.String())
			if verdict.Kind == core.VErr && err == nil {
				return failf("malformed-accepted", "model: %s", verdict.Why)
			}
			return nil
		}
		if err != nil || n != verdict.N {
			return failf("wellformed-rejected", "n=%d (want %d) err=%v; msg %s", n, verdict.N, err, hexs(c.Msg))
		}
		got := b.Lift(dest.Elem())
		if m := core.EqualStruct(c.S, got, exp, core.EqOpts{}, "$"); m != nil {
			return failf("decoded-value-differs", "(got vs want) %s; msg %s", m, hexs(c.Msg))
		}
		lo := uintptr(unsafe.Pointer(unsafe.SliceData(buf)))
		hi := lo + uintptr(len(buf))
		blo := uintptr(unsafe.Pointer(unsafe.SliceData(block)))
		bhi := blo + uintptr(len(block))
		var refs []strRef
		collectStrings(c.S, dest.Elem(), "$", &refs)
		var views []core.Extent
		ncFields, plainNonEmpty, nested := 0, 0, false
		for _, r := range refs {
			inside := r.data >= blo && r.data < bhi && r.len > 0
			if r.nocopy {
				ncFields++
				if r.len == 0 {
					if r.data >= lo && r.data < hi {
						return failf("nocopy-empty-references-buffer", "%s: zero-length nocopy value points into the input buffer (offset %d)", r.path, r.data-lo)
					}
					continue
				}
				if r.data+uintptr(r.len) <= blo || r.data >= bhi {
					// not in the buffer at all: legitimate for a field the message does not carry (a declared
					// default, e.g.); a transmitted value that was copied shows up below as a missing extent
					continue
				}
				if !(r.data >= lo && r.data+uintptr(r.len) <= hi) {
					return failf("nocopy-not-a-view", "%s: nocopy value of %d bytes lies only partly inside the input buffer", r.path, r.len)
				}
				if r.binary && r.cap != r.len {
					return failf("nocopy-spare-capacity", "%s: nocopy binary has len %d but cap %d: appending would overwrite the bytes behind the value", r.path, r.len, r.cap)
				}
				views = append(views, core.Extent{Off: int(r.data - lo), Len: r.len})
			} else {
				if r.len > 0 {
					plainNonEmpty++
				}
				if inside || (r.len > 0 && r.data+uintptr(r.len) > blo && r.data < bhi) {
					return failf("copy-field-references-buffer", "%s: value of a field without nocopy points into the input buffer", r.path)
				}
				if r.binary && r.cap > r.len {
					// spare capacity of a copied binary must not reach into the buffer either
					if r.data+uintptr(r.cap) > blo && r.data < bhi {
						return failf("copy-field-references-buffer", "%s: capacity of a copied binary overlaps the input buffer", r.path)
					}
				}
			}
			if len(r.path) > 0 && (countByte(r.path, '.') > 1 || countByte(r.path, '[') > 0 || countByte(r.path, '{') > 0) {
				nested = true
			}
		}
		// same address, same length: the extents must be exactly the model's
		want := append([]core.Extent{}, verdict.Views...)
		sortExt := func(e []core.Extent) {
			sort.Slice(e, func(i, j int) bool { return e[i].Off < e[j].Off || (e[i].Off == e[j].Off && e[i].Len < e[j].Len) })
		}
		sortExt(views)
		sortExt(want)
		if fmt.Sprint(views) != fmt.Sprint(want) {
			return failf("nocopy-wrong-extent", "nocopy values view buffer extents %v, their values are at %v (a missing extent: the value was copied or left as it was); msg %s", views, want, hexs(c.Msg))
		}
		// changes of the buffer are visible through the nocopy fields and only through them
		before := make([][]byte, len(refs))
		for i, r := range refs {
			before[i] = append([]byte{}, r.bytes()...)
		}
		for i := range buf {
			buf[i] ^= 0xff
		}
		for i, r := range refs {
			now := r.bytes()
			view := r.nocopy && r.len > 0 && r.data >= lo && r.data+uintptr(r.len) <= hi
			for j := range now {
				want := before[i][j]
				if view {
					want ^= 0xff
				}
				if now[j] != want {
					if view {
						return failf("buffer-change-visibility", "%s: a change of the buffer bytes is not visible through the nocopy field", r.path)
					}
					return failf("buffer-change-visibility", "%s: changed when the input buffer was overwritten, though it is not a nocopy view of it", r.path)
				}
			}
		}
		// ... and through nothing else
		got2 := b.Lift(dest.Elem())
		if m := core.EqualStruct(c.S, got2, exp, core.EqOpts{SkipNoCopy: true}, "$"); m != nil {
			return failf("buffer-change-visibility", "after flipping every buffer byte (got vs want) %s", m)
		}
		// the same message once more, from a second buffer, into the same destination: each nocopy field
		// the message carries is "set to exactly the transmitted value" again, i.e. views the second
		// buffer now - also when the field already holds the same bytes
		block2 := make([]byte, len(c.Msg)+128)
		buf2 := block2[64 : 64+len(c.Msg) : 64+len(c.Msg)]
		copy(buf2, c.Msg)
		n2, err2, f := fDecode(buf2, dest.Interface())
		if f != nil {
			return f
		}
		if err2 != nil || n2 != verdict.N {
			return failf("wellformed-rejected", "second decode into the same destination: n=%d (want %d) err=%v", n2, verdict.N, err2)
		}
		lo2 := uintptr(unsafe.Pointer(unsafe.SliceData(buf2)))
		hi2 := lo2 + uintptr(len(buf2))
		var refs2 []strRef
		collectStrings(c.S, dest.Elem(), "$", &refs2)
		var views2 []core.Extent
		for _, r := range refs2 {
			if !r.nocopy || r.len == 0 {
				continue
			}
			if r.data >= blo && r.data < bhi {
				return failf("nocopy-stale-view", "%s: after the same message was decoded from a second buffer into the same destination, the nocopy value still points into the first buffer", r.path)
			}
			if r.data >= lo2 && r.data+uintptr(r.len) <= hi2 {
				views2 = append(views2, core.Extent{Off: int(r.data - lo2), Len: r.len})
			}
		}
		sortExt(views2)
		if fmt.Sprint(views2) != fmt.Sprint(want) {
			return failf("nocopy-wrong-extent", "second decode into the same destination: nocopy values view extents %v of the new buffer, their values are at %v; msg %s", views2, want, hexs(c.Msg))
		}
		runtime.KeepAlive(block)
		labels := []string{}
		if len(views) > 0 {
			labels = append(labels, "nocopy-views")
		}
		if verdict.NoCopyEmpty > 0 {
			labels = append(labels, "nocopy-empty-value")
		}
		if nested {
			labels = append(labels, "nested-strings")
		}
		hasPtrNoCopy := false
		c.S.WalkTypes(func(*core.TypeSpec) {})
		for _, f := range c.S.Fields {
			if f.NoCopy && f.GoPtr {
				hasPtrNoCopy = true
			}
		}
		if hasPtrNoCopy {
			labels = append(labels, "optional-pointer-nocopy")
		}
		sample := interface{}(c)
		if len(c.Msg) > 1<<20 {
			labels = append(labels, "message>1MiB")
			sample = map[string]interface{}{"type": c.S.Sig(), "message_bytes": len(c.Msg)}
		}
		w.count(len(views) >= 1 && plainNonEmpty >= 1 && (nested || hasPtrNoCopy), c.S.Sig()+hashStr(string(c.Msg)), sample, labels...)
		return nil
	}
}

func countByte(s string, b byte) int {
	n := 0
	for i := 0; i < len(s); i++ {
		if s[i] == b {
			n++
		}
	}
	return n
}

func TestC14(t *testing.T) {
	w := newWorker(t, "C14")
	drive(t, caseRunner[decCase]{w: w, gen: genC14, run: runC14(w), journalled: true})
}

// equaliseDefaults sets string/binary fields that have a declared default to exactly that default
// now and then, at every nesting level: the value on the wire then equals what the initialiser
// has already put into the field.
func equaliseDefaults(t *rapid.T, s *core.StructSpec, v *core.SVal, depth int) {
	if v == nil || depth > 6 {
		return
	}
	var val func(ts *core.TypeSpec, x core.Val)
	val = func(ts *core.TypeSpec, x core.Val) {
		switch ts.Kind {
		case core.KList, core.KSet:
			for _, e := range x.L {
				val(ts.Elem, e)
			}
		case core.KMap:
			for _, kv := range x.M {
				val(ts.Elem, kv.V)
			}
		case core.KStruct:
			if !x.Nil && x.St != nil {
				equaliseDefaults(t, ts.SS(), x.St, depth+1)
			}
		}
	}
	for _, f := range s.Fields {
		fv := v.F[f.ID]
		if f.GoPtr && fv.Nil {
			continue
		}
		val(f.Type, fv)
		if d, ok := s.Defaults[f.ID]; ok && s.HasInit && (f.Type.Kind == core.KString || f.Type.Kind == core.KBinary) && len(d.S) > 0 && !f.GoPtr {
			if rapid.Bool().Draw(t, "equaldefault") {
				v.F[f.ID] = core.Val{S: append([]byte{}, d.S...)}
			}
		}
	}
}
