package checks

import (
	"fmt"
	"testing"

	"pgregory.net/rapid"

	"verif/harness/core"
)

// C01 — encode then decode returns the original value.

func c01Cfg() core.GenCfg {
	return core.GenCfg{Holder: true, Extras: true, BigIDs: true, Spellings: true, Twins: true, BinaryPtr: true, NamedRefs: namedRefs(), Huge: true}
}

func genTV(cfg core.GenCfg) func(t *rapid.T) TV {
	return func(t *rapid.T) TV {
		var s *core.StructSpec
		if refs := cfg.NamedRefs; len(refs) > 0 && rapid.IntRange(0, 3).Draw(t, "toplevelNamed") == 0 {
			// half of the named picks from the curated shapes (a few dozen among the generated ones)
			if cur := curatedRefs(refs); len(cur) > 0 && rapid.Bool().Draw(t, "curated") {
				refs = cur
			}
			s = core.LookupSpec(rapid.SampledFrom(refs).Draw(t, "top"))
		} else {
			s = core.GenStruct(t, cfg)
		}
		v := core.GenStructVal(t, cfg, s)
		// now and then wrap the value in one or two single-field by-value structs, or pick a struct whose
		// only field is a pointer / map: Go stores such "pointer-shaped" structs directly in the interface
		// word, which matters for everything that takes the argument apart with unsafe
		if rapid.IntRange(0, 11).Draw(t, "wrap1") == 0 {
			n := rapid.IntRange(1, 2).Draw(t, "nwrap1")
			for i := 0; i < n; i++ {
				ft := &core.TypeSpec{Kind: core.KStruct, Struct: s, Ptr: i == 0 && rapid.Bool().Draw(t, "wrapptr")}
				if s.Name != "" {
					ft = &core.TypeSpec{Kind: core.KStruct, Ref: s.Name, Ptr: ft.Ptr}
				}
				ws := &core.StructSpec{Fields: []*core.FieldSpec{{Name: fmt.Sprintf("Only%d", i), ID: uint16(1 + i), Type: ft}}}
				wv := &core.SVal{F: map[uint16]core.Val{uint16(1 + i): {St: v}}, UnkNil: true}
				s, v = ws, wv
			}
		}
		return TV{S: s, V: v}
	}
}

func typeShape(s *core.StructSpec) (containers, structs, fields int, labels []string) {
	seen := map[string]bool{}
	fields = len(s.Fields)
	s.WalkTypes(func(t *core.TypeSpec) {
		switch t.Kind {
		case core.KList, core.KSet:
			containers++
			seen[t.Kind.String()+"<"+t.Elem.Kind.String()+">"] = true
		case core.KMap:
			containers++
			l := "map<" + t.Key.Kind.String() + ":" + t.Elem.Kind.String()
			if t.Elem.Kind == core.KStruct && !t.Elem.Ptr {
				l += "-byvalue"
			}
			seen[l+">"] = true
		case core.KStruct:
			structs++
			if t.Ptr {
				seen["struct-ptr"] = true
			} else {
				seen["struct-byvalue"] = true
			}
			if t.Ref != "" {
				seen["struct-named"] = true
			}
		}
	})
	for _, f := range s.Fields {
		if f.ID >= 256 {
			seen["id>=256"] = true
		}
		if f.ID >= 4096 {
			seen["id>=4096"] = true
		}
	}
	wideCheck := func(st *core.StructSpec) {
		nreq := 0
		for _, f := range st.Fields {
			if f.Req == core.Required {
				nreq++
			}
		}
		if len(st.Fields) > 64 {
			seen["fields>64"] = true
		}
		if nreq > 64 {
			seen["required>64"] = true
		}
	}
	wideCheck(s)
	s.WalkTypes(func(t *core.TypeSpec) {
		if t.Kind == core.KStruct && t.Struct != nil {
			wideCheck(t.Struct)
		}
	})
	if s.Holder {
		seen["holder"] = true
	}
	if s.HasInit {
		seen["top-has-defaults"] = true
	}
	for l := range seen {
		labels = append(labels, l)
	}
	return
}

func runC01(w *worker) func(c TV) *Failure {
	return func(c TV) *Failure {
		b := core.Bind(c.S)
		src := b.NewValue(c.V)
		out, f := encodeExact(src.Interface())
		if f != nil {
			return f
		}
		// the model's expectation
		want := core.RefEncode(c.S, c.V)
		amb := core.AmbiguousOmit(c.S, c.V)
		exp := core.FreshStruct(c.S)
		verdict := core.RefDecode(c.S, want, exp)

		dest := newDest(b)
		k, err, f := fDecode(out, dest.Interface())
		if f != nil {
			return f
		}
		containers, structs, fields, labels := typeShape(c.S)
		nz := core.NonZeroLeaves(c.S, c.V)
		nontriv := nz >= 1 && (containers > 0 || structs > 0 || fields >= 3)

		switch verdict.Kind {
		case core.VErr:
			// e.g. a nil non-optional struct whose type has required fields is written
			// as an empty struct and rightly rejected: belongs to C09, only agreement is checked
			w.count(false, "", nil, "expected_reject")
			if err == nil {
				return failf("roundtrip-accepts-invalid", "model rejects the re-read (%s) but DecodeObject succeeded", verdict.Why)
			}
			return nil
		case core.VGray:
			w.count(false, "", nil, "depth_gray")
			return nil
		}
		if err != nil {
			return failf("roundtrip-decode-error", "decoding frugal's own output failed: %v (bytes %s)", err, hexs(out))
		}
		if k != len(out) {
			return failf("roundtrip-consumed", "DecodeObject consumed %d of %d bytes", k, len(out))
		}
		if herr := b.CheckHeaders(dest.Elem()); herr != nil {
			return failf("malformed-slice", "decoded object holds a malformed slice header: %v", herr)
		}
		got := b.Lift(dest.Elem())
		m := core.EqualStruct(c.S, got, exp, core.EqOpts{}, "$")
		if m != nil && amb {
			for _, alt := range core.RefEncodeAll(c.S, c.V, 10) {
				exp2 := core.FreshStruct(c.S)
				core.RefDecode(c.S, alt, exp2)
				if core.EqualStruct(c.S, got, exp2, core.EqOpts{}, "$") == nil {
					m = nil
					break
				}
			}
		}
		if m != nil {
			return failf("roundtrip-mismatch", "decoded value differs from the original (got vs want) %s; bytes %s", m, hexs(out))
		}
		if err := b.CheckExtras(src.Elem()); err != nil {
			return failf("ignored-field-touched", "encode: %v", err)
		}
		w.count(nontriv, c.S.Sig()+string(want), c, labels...)
		return nil
	}
}

func TestC01(t *testing.T) {
	w := newWorker(t, "C01")
	drive(t, caseRunner[TV]{w: w, gen: genTV(c01Cfg()), run: runC01(w), journalled: true})
}

// curatedRefs: the hand-written named types among refs (generated ones are N000, N001, ...).
func curatedRefs(refs []string) []string {
	var out []string
	for _, n := range refs {
		if len(n) == 4 && n[0] == 'N' && n[1] >= '0' && n[1] <= '9' {
			continue
		}
		out = append(out, n)
	}
	return out
}
