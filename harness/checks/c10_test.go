package checks

import (
	"fmt"
	"reflect"
	"runtime"
	"testing"

	"pgregory.net/rapid"

	"verif/harness/core"
)

// C10 — optional fields and declared defaults follow Thrift semantics.

type c10Case struct {
	S     *core.StructSpec `json:"s"`
	V     *core.SVal       `json:"v"`
	Msg   []byte           `json:"msg"`
	Prior *core.SVal       `json:"prior,omitempty"`
}

// typesWithDefaults: named types that declare defaults or reach one that does.
func typesWithDefaults() []string {
	var out []string
	for _, n := range namedRefs() {
		s := core.LookupSpec(n)
		has := s.HasInit
		s.WalkTypes(func(t *core.TypeSpec) {
			if t.Kind == core.KStruct && t.SS().HasInit {
				has = true
			}
		})
		if has {
			out = append(out, n)
		}
	}
	return out
}

// defaultise rewrites optional non-pointer fields to their declared default (or its
// near misses) at every struct level, so "equal to the default" is actually exercised.
func defaultise(t *rapid.T, s *core.StructSpec, v *core.SVal, stats map[string]int) {
	var val func(ts *core.TypeSpec, x core.Val)
	val = func(ts *core.TypeSpec, x core.Val) {
		switch ts.Kind {
		case core.KStruct:
			if !x.Nil && x.St != nil {
				defaultise(t, ts.SS(), x.St, stats)
			}
		case core.KList, core.KSet:
			for _, e := range x.L {
				val(ts.Elem, e)
			}
		case core.KMap:
			for _, kv := range x.M {
				val(ts.Key, kv.K)
				val(ts.Elem, kv.V)
			}
		}
	}
	for _, f := range s.Fields {
		fv := v.F[f.ID]
		if !(f.GoPtr && fv.Nil) {
			val(f.Type, fv)
		}
		if f.Req != core.Optional || f.GoPtr || !s.HasInit {
			continue
		}
		d, has := s.Defaults[f.ID]
		if !has {
			d = core.ZeroType(f.Type)
		}
		switch f.Type.Kind {
		case core.KBool, core.KI8, core.KI16, core.KI32, core.KI64, core.KEnum, core.KString, core.KDouble, core.KBinary:
			switch rapid.IntRange(0, 5).Draw(t, "defmode") {
			case 0, 1:
				nv := d.Clone()
				if f.Type.Kind == core.KBinary {
					nv.Nil = false
				}
				v.F[f.ID] = nv
				stats["equal-default"]++
			case 2:
				if f.Type.Kind == core.KDouble {
					nv := d.Clone()
					nv.F ^= 1 << 63 // sign flip: -0.0 vs 0.0 when the default is a zero
					v.F[f.ID] = nv
					stats["double-signflip"]++
				} else if f.Type.Kind == core.KBinary {
					v.F[f.ID] = core.Val{Nil: true}
					stats["nil-binary"]++
				} else if f.Type.Kind == core.KString {
					v.F[f.ID] = core.Val{S: append(append([]byte{}, d.S...), 'x')}
				}
			default:
				stats["differs"]++
			}
		}
	}
}

func genC10(t *rapid.T) c10Case {
	cfg := c01Cfg()
	cfg.MaxBytes = 2048
	var s *core.StructSpec
	if wd := typesWithDefaults(); len(wd) > 0 && rapid.IntRange(0, 9).Draw(t, "withdefaults") < 8 {
		s = core.LookupSpec(rapid.SampledFrom(wd).Draw(t, "type"))
	} else {
		s = genTV(cfg)(t).S
	}
	v := core.GenStructVal(t, cfg, s)
	stats := map[string]int{}
	defaultise(t, s, v, stats)
	c := c10Case{S: s, V: v}
	// decode side: a message for the same type with optional fields dropped here and there
	v2 := core.GenStructVal(t, cfg, s)
	c.Msg, _ = genWireMsg(t, s, v2, wireEditCfg{Drop: true, Shuffle: true})
	if rapid.Bool().Draw(t, "prior") {
		c.Prior = core.GenStructVal(t, cfg, s)
	}
	return c
}

// presenceMatches checks the set of fields present at each struct level (through
// struct fields and list/set elements; map entries are covered by canonical equality in C02).
func presenceMatches(s *core.StructSpec, v *core.SVal, n *core.WNode, path string) *Failure {
	present := map[uint16]byte{}
	for i := range n.Fields {
		present[n.Fields[i].ID] = n.Fields[i].T
	}
	for _, f := range s.Fields {
		fv := v.F[f.ID]
		wt, ok := present[f.ID]
		switch core.OmitRule(s, f, fv) {
		case core.Emit:
			if !ok || wt != f.Type.WT() {
				return failf("field-omitted", "%s.%s (id %d, %s) must be written but is absent", path, f.Name, f.ID, f.Req)
			}
		case core.Omit:
			if ok {
				return failf("field-not-omitted", "%s.%s (id %d, optional, nil or equal to its declared default) must be omitted but is present", path, f.Name, f.ID)
			}
		}
	}
	var val func(ts *core.TypeSpec, x core.Val, w *core.WNode, p string) *Failure
	val = func(ts *core.TypeSpec, x core.Val, w *core.WNode, p string) *Failure {
		switch ts.Kind {
		case core.KStruct:
			if x.Nil || x.St == nil || w.T != core.WStruct {
				return nil
			}
			return presenceMatches(ts.SS(), x.St, w, p)
		case core.KList, core.KSet:
			if len(w.Elems) != len(x.L) {
				return nil
			}
			for i := range x.L {
				if f := val(ts.Elem, x.L[i], &w.Elems[i], fmt.Sprintf("%s[%d]", p, i)); f != nil {
					return f
				}
			}
		}
		return nil
	}
	for i := range n.Fields {
		f := s.ByID(n.Fields[i].ID)
		if f == nil || f.Type.WT() != n.Fields[i].T {
			continue
		}
		fv := v.F[f.ID]
		if f.GoPtr && fv.Nil {
			continue
		}
		if fl := val(f.Type, fv, &n.Fields[i].V, path+"."+f.Name); fl != nil {
			return fl
		}
	}
	return nil
}

func runC10(w *worker) func(c c10Case) *Failure {
	return func(c c10Case) *Failure {
		b := core.Bind(c.S)
		src := b.NewValue(c.V)
		out, f := encodeExact(src.Interface())
		if f != nil {
			return f
		}
		tree, used, err := core.ParseStruct(out, 1<<20)
		if err != nil || used != len(out) {
			return failf("output-malformed", "strict parser rejects EncodeObject output: %v; %s", err, hexs(out))
		}
		if f := presenceMatches(c.S, c.V, &tree, "$"); f != nil {
			f.Msg += "; output " + hexs(out)
			return f
		}
		// decode: defaults in decoder-created structs, prior contents kept at top level,
		// optional pointers non-nil iff transmitted
		verdict, f := checkDecodeAgainstModel(decCase{S: c.S, Msg: c.Msg, Prior: c.Prior})
		if f != nil {
			return f
		}
		// the defaults a decoded object shows are its own: after the caller has overwritten, in place,
		// every binary value of one decoded object (declared defaults included), the next object decoded
		// from the same message still reads the declared defaults
		if verdict.Kind == core.VOK {
			d1 := newDest(b)
			if _, err, f := fDecode(append([]byte{}, c.Msg...), d1.Interface()); f != nil || err != nil {
				if f != nil {
					return f
				}
				return failf("wellformed-rejected", "second decode of an accepted message failed: %v", err)
			}
			n := 0
			if f := safely("overwriting the binaries of a decoded object", func() { n = scribbleBinaries(c.S, d1.Elem()) }); f != nil {
				return f
			}
			if n > 0 {
				if _, f := checkDecodeAgainstModel(decCase{S: c.S, Msg: c.Msg, Prior: c.Prior}); f != nil {
					f.Msg = "after the binary values of an earlier decoded object were overwritten in place: " + f.Msg
					return f
				}
				w.label("decoded-again-after-overwriting-binaries")
			}
			runtime.KeepAlive(d1)
		}
		eq, diff, nestedInit := 0, 0, false
		for _, fl := range c.S.Fields {
			if fl.Req == core.Optional && !fl.GoPtr && c.S.HasInit {
				switch core.OmitRule(c.S, fl, c.V.F[fl.ID]) {
				case core.Omit:
					eq++
				case core.Emit:
					diff++
				}
			}
		}
		c.S.WalkTypes(func(t *core.TypeSpec) {
			if t.Kind == core.KStruct && t.SS().HasInit {
				nestedInit = true
			}
		})
		labels := []string{"decode-verdict:" + verdict.Kind.String()}
		if c.S.HasInit {
			labels = append(labels, "top-declares-defaults")
		}
		if nestedInit {
			labels = append(labels, "nested-declares-defaults")
		}
		if core.AmbiguousOmit(c.S, c.V) {
			labels = append(labels, "ambiguous-float-equality")
		}
		if c.Prior != nil {
			labels = append(labels, "prior-contents")
		}
		nontriv := (c.S.HasInit && eq >= 1 && diff >= 1) || (nestedInit && verdict.Kind == core.VOK && verdict.Known > 0)
		w.count(nontriv, c.S.Sig()+string(out)+string(c.Msg), c, labels...)
		return nil
	}
}

func TestC10(t *testing.T) {
	w := newWorker(t, "C10")
	drive(t, caseRunner[c10Case]{w: w, gen: genC10, run: runC10(w), journalled: true})
}

// scribbleBinaries inverts, in place, every byte of every binary value reachable from the
// struct (through pointers, containers and nested structs); returns the number of bytes touched.
func scribbleBinaries(s *core.StructSpec, rv reflect.Value) int {
	b := core.Bind(s)
	if !rv.CanAddr() {
		return 0 // a struct held by value in a map: its binaries are reached through a copy, same backing arrays
	}
	n := 0
	var val func(ts *core.TypeSpec, rv reflect.Value)
	val = func(ts *core.TypeSpec, rv reflect.Value) {
		switch ts.Kind {
		case core.KBinary:
			if rv.Kind() == reflect.Slice && !rv.IsNil() {
				bs := rv.Bytes()
				for i := range bs {
					bs[i] ^= 0xff
				}
				n += len(bs)
			}
		case core.KList, core.KSet:
			for i := 0; i < rv.Len(); i++ {
				val(ts.Elem, rv.Index(i))
			}
		case core.KMap:
			it := rv.MapRange()
			for it.Next() {
				val(ts.Elem, it.Value())
			}
		case core.KStruct:
			if ts.Ptr {
				if rv.IsNil() {
					return
				}
				rv = rv.Elem()
			}
			if rv.CanAddr() {
				n += scribbleBinaries(ts.SS(), rv)
			} else {
				c := reflect.New(rv.Type()).Elem()
				c.Set(rv)
				n += scribbleBinaries(ts.SS(), c)
			}
		}
	}
	for _, f := range s.Fields {
		fv := rv.Field(b.FieldIndex(f.ID))
		if f.GoPtr {
			if fv.IsNil() {
				continue
			}
			fv = fv.Elem()
		}
		val(f.Type, fv)
	}
	return n
}
