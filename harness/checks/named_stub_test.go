package checks

func namedRefs() []string { return nil }
