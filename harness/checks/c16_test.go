package checks

import (
	"bytes"
	"crypto/sha256"
	"fmt"
	"reflect"
	"strings"
	"sync"
	"testing"

	"pgregory.net/rapid"

	"verif/harness/core"
)

// C16 — encoding has no side effects beyond buf[:n] and is repeatable; decoding never
// modifies the input buffer.

type c16Case struct {
	TV
	Extra int       `json:"extra"`
	Dec   *decCase  `json:"dec,omitempty"` // decode side: well-formed or mutated input
	Mut   *mutation `json:"mut,omitempty"`
	// EnvFail: a failing DecodeObject call is made between decoding the envelope and decoding
	// the payload it carried
	EnvFail bool `json:"envfail,omitempty"`
}

// c16Envelope carries an encoded message as a binary field: decoding the payload then
// reads an input buffer that is itself memory produced by an earlier decode.
type c16Envelope struct {
	Payload []byte `frugal:"1,default,binary"`
	Note    string `frugal:"2,default,string"`
}

func genC16(t *rapid.T) c16Case {
	cfg := c04Cfg()
	c := c16Case{TV: genTV(cfg)(t)}
	c.Extra = rapid.SampledFrom([]int{0, 1, 64, 4096}).Draw(t, "extra")
	dcfg := c14Cfg()
	dtv := genTV(dcfg)(t)
	d := decCase{S: dtv.S}
	d.Msg, _ = genWireMsg(t, dtv.S, dtv.V, fullEdit)
	c.Dec = &d
	if rapid.Bool().Draw(t, "mutate") {
		m := mutation{Kind: rapid.SampledFrom([]string{"prefix", "byte", "len", "insert", "delete"}).Draw(t, "mk"),
			Pos: rapid.IntRange(0, 1<<20).Draw(t, "mp"), Val: int64(rapid.IntRange(0, len(lenVals)-1).Draw(t, "mv"))}
		c.Mut = &m
	}
	c.EnvFail = rapid.Bool().Draw(t, "envfail")
	return c
}

// addrSnapshot lists address/len/cap of every pointer, slice, string and map header
// reachable from the struct (together with Lift this is the "deep snapshot").
func addrSnapshot(s *core.StructSpec, rv reflect.Value, path string, sb *strings.Builder) {
	b := core.Bind(s)
	if !rv.CanAddr() {
		// a struct held by value in a map: headers are read from an addressable copy
		c := reflect.New(rv.Type()).Elem()
		c.Set(rv)
		rv = c
	}
	var val func(ts *core.TypeSpec, rv reflect.Value, p string)
	val = func(ts *core.TypeSpec, rv reflect.Value, p string) {
		switch ts.Kind {
		case core.KString:
			str := rv.String()
			fmt.Fprintf(sb, "%s:str@%p/%d\n", p, strData(str), len(str))
		case core.KBinary:
			fmt.Fprintf(sb, "%s:bin@%x/%d/%d\n", p, rv.Pointer(), rv.Len(), rv.Cap())
			if rv.Kind() == reflect.Slice && rv.Cap() > rv.Len() {
				bs := rv.Bytes()
				fmt.Fprintf(sb, "%s:bin-spare:%x\n", p, bs[len(bs):cap(bs)])
			}
		case core.KList, core.KSet:
			fmt.Fprintf(sb, "%s:slice@%x/%d/%d\n", p, rv.Pointer(), rv.Len(), rv.Cap())
			for i := 0; i < rv.Len(); i++ {
				val(ts.Elem, rv.Index(i), fmt.Sprintf("%s[%d]", p, i))
			}
		case core.KMap:
			fmt.Fprintf(sb, "%s:map@%x/%d\n", p, rv.Pointer(), rv.Len())
			// entries in a canonical order
			type ent struct {
				k string
				e string
			}
			var ents []string
			it := rv.MapRange()
			for it.Next() {
				var eb strings.Builder
				val2 := val
				_ = val2
				kk := fmt.Sprintf("%v", liftKeyString(ts.Key, it.Key()))
				savedSB := sb
				sb = &eb
				val(ts.Elem, it.Value(), p+"{"+kk+"}")
				sb = savedSB
				ents = append(ents, eb.String())
			}
			sortStrings(ents)
			for _, e := range ents {
				sb.WriteString(e)
			}
		case core.KStruct:
			if ts.Ptr {
				fmt.Fprintf(sb, "%s:ptr@%x\n", p, rv.Pointer())
				if rv.IsNil() {
					return
				}
				rv = rv.Elem()
			}
			addrSnapshot(ts.SS(), rv, p, sb)
		}
	}
	for _, f := range s.Fields {
		fv := rv.Field(b.FieldIndex(f.ID))
		p := path + "." + f.Name
		if f.GoPtr {
			fmt.Fprintf(sb, "%s:ptr@%x\n", p, fv.Pointer())
			if fv.IsNil() {
				continue
			}
			fv = fv.Elem()
		}
		val(f.Type, fv, p)
	}
	if h := b.HolderIndex(); h >= 0 {
		hb := holderBytes(rv.Field(h))
		fmt.Fprintf(sb, "%s._unknownFields@%p/%d/%d\n", path, sliceData(hb), len(hb), cap(hb))
		if cap(hb) > len(hb) {
			fmt.Fprintf(sb, "%s._unknownFields-spare:%x\n", path, hb[len(hb):cap(hb)])
		}
	}
}

func liftKeyString(ts *core.TypeSpec, k reflect.Value) string {
	switch ts.Kind {
	case core.KStruct:
		return fmt.Sprintf("%x", k.Pointer())
	case core.KDouble:
		return fmt.Sprintf("%x", k.Float())
	}
	return fmt.Sprintf("%v", k.Interface())
}

func runC16(w *worker) func(c c16Case) *Failure {
	return func(c c16Case) *Failure {
		b := core.Bind(c.S)
		src := b.NewValue(c.V)
		pv := src.Interface()
		snap := func() (string, *core.SVal) {
			var sb strings.Builder
			addrSnapshot(c.S, src.Elem(), "$", &sb)
			return sb.String(), b.Lift(src.Elem())
		}
		a0, v0 := snap()
		same := func(what string) *Failure {
			a1, v1 := snap()
			if m := core.EqualStruct(c.S, v1, v0, core.EqOpts{}, "$"); m != nil {
				return failf("argument-modified", "%s changed the value it was given: %s", what, m)
			}
			if a1 != a0 {
				return failf("argument-modified", "%s changed a pointer/slice/string/map header reachable from its argument:\n%s", what, firstDiff(a0, a1))
			}
			if err := b.CheckExtras(src.Elem()); err != nil {
				return failf("ignored-field-touched", "%s: %v", what, err)
			}
			return nil
		}
		s, f := fSize(pv)
		if f != nil {
			return f
		}
		if f := same("EncodedSize(&v)"); f != nil {
			return f
		}
		if _, f := fSize(src.Elem().Interface()); f != nil {
			return f
		}
		if f := same("EncodedSize(v)"); f != nil {
			return f
		}
		var first []byte
		for round := 0; round < 3; round++ {
			ar := newArena(s+c.Extra, 16)
			buf := ar.buf()
			arg := pv
			what := "EncodeObject(&v)"
			if round == 1 {
				arg = src.Elem().Interface()
				what = "EncodeObject(v)"
			}
			n, err, f := fEncode(buf, arg)
			if f != nil {
				return f
			}
			if err != nil || n != s {
				return failf("encode-error", "%s: n=%d (size %d) err=%v", what, n, s, err)
			}
			if off, ok := ar.outsideIntact(n); !ok {
				return failf("wrote-beyond-n", "%s wrote %d bytes but modified the byte at offset %d of a buffer of %d (+16 spare)", what, n, off, s+c.Extra)
			}
			if f := same(what); f != nil {
				return f
			}
			co, cerr := core.Canon(buf[:n])
			if cerr != nil {
				return failf("output-malformed", "%v", cerr)
			}
			if round == 0 {
				first = co
			} else if !bytes.Equal(first, co) {
				return failf("not-repeatable", "encoding the same unmodified value again gave different bytes (round %d)", round)
			}
		}
		// calls on OTHER values of the same type leave this one alone as well (whatever an earlier call
		// kept of its argument): another value, by value and by pointer, then this one again
		others := []interface{}{reflect.New(b.Type).Elem().Interface(), reflect.New(b.Type).Interface()}
		if s > 1<<16 {
			others = others[:1] // large values: one round (every round walks the whole value twice)
		}
		for round, other := range others {
			if _, f := fSize(other); f != nil {
				return f
			}
			if _, f := encodeExact(other); f != nil {
				f.Msg = "zero value of the type: " + f.Msg
				return f
			}
			if f := same(fmt.Sprintf("a later call on another value of the type (round %d)", round)); f != nil {
				return f
			}
			again, f := encodeExact(pv)
			if f != nil {
				return f
			}
			if co, _ := core.Canon(again); !bytes.Equal(first, co) {
				return failf("not-repeatable", "after a call on another value of the same type, encoding the unmodified value gave different bytes")
			}
		}
		// "never modify" includes "not for a moment": while two goroutines size and encode the value,
		// a third one reads it (a value nobody writes may be shared); every reader and every encoder
		// must see what a call made alone sees
		if hs := sha256.Sum256([]byte(a0)); hs[0]%3 == 0 {
			var wg sync.WaitGroup
			var mu sync.Mutex
			var cf *Failure
			report := func(f *Failure) {
				mu.Lock()
				if cf == nil {
					cf = f
				}
				mu.Unlock()
			}
			for g := 0; g < 3; g++ {
				wg.Add(1)
				go func(g int) {
					defer wg.Done()
					buf := make([]byte, s)
					for k := 0; k < 10; k++ {
						if g == 2 {
							v1 := b.Lift(src.Elem())
							if m := core.EqualStruct(c.S, v1, v0, core.EqOpts{}, "$"); m != nil {
								report(failf("argument-modified", "while EncodedSize/EncodeObject were running on it, a concurrent reader saw the value changed: %s", m))
								return
							}
							continue
						}
						if sz, f := fSize(pv); f != nil || sz != s {
							if f == nil {
								f = failf("not-repeatable", "EncodedSize of a value shared read-only by two encoding goroutines returned %d, alone %d", sz, s)
							}
							report(f)
							return
						}
						n, err, f := fEncode(buf, pv)
						if f != nil {
							report(f)
							return
						}
						if err != nil || n != s {
							report(failf("not-repeatable", "EncodeObject of a value shared read-only by two encoding goroutines: n=%d err=%v, alone n=%d", n, err, s))
							return
						}
						if co, cerr := core.Canon(buf[:n]); cerr != nil || !bytes.Equal(co, first) {
							report(failf("not-repeatable", "EncodeObject of a value shared read-only by two encoding goroutines gave different bytes (%v)", cerr))
							return
						}
					}
				}(g)
			}
			wg.Wait()
			if cf != nil {
				return cf
			}
			if f := same("concurrent EncodedSize/EncodeObject calls"); f != nil {
				return f
			}
			w.label("shared-read-only-by-concurrent-encoders")
		}
		// decode side
		if c.Dec != nil {
			in := c.Dec.Msg
			if c.Mut != nil {
				cc := c05Case{S: c.Dec.S, Base: c.Dec.Msg}
				lens, _ := collectSites(c.Dec.Msg)
				in, _ = applyMutation(&cc, *c.Mut, lens)
			}
			db := core.Bind(c.Dec.S)
			dest := newDest(db)
			block := make([]byte, len(in)+64)
			for i := range block {
				block[i] = 0x3c
			}
			buf := block[32 : 32+len(in) : 32+len(in)]
			copy(buf, in)
			_, err, f := fDecode(buf, dest.Interface())
			if f != nil {
				return f
			}
			if !bytes.Equal(buf, in) {
				return failf("input-modified", "DecodeObject modified its input buffer (err=%v)", err)
			}
			for i, x := range block {
				if (i < 32 || i >= 32+len(in)) && x != 0x3c {
					return failf("input-modified", "DecodeObject wrote next to its input buffer")
				}
			}
			if err != nil {
				w.label("decode-error-path")
			} else {
				w.label("decode-success-path")
			}
			// the same input once more, this time received inside an envelope: the buffer handed to
			// DecodeObject is the binary field of a previously decoded object
			note := "envelope-note-0123456789"
			envMsg := []byte{0x0b, 0, 1, byte(len(in) >> 24), byte(len(in) >> 16), byte(len(in) >> 8), byte(len(in))}
			envMsg = append(envMsg, in...)
			envMsg = append(envMsg, 0x0b, 0, 2, 0, 0, 0, byte(len(note)))
			envMsg = append(envMsg, note...)
			envMsg = append(envMsg, 0)
			var env c16Envelope
			if _, err, f := fDecode(envMsg, &env); f != nil || err != nil {
				if f != nil {
					return f
				}
				return failf("envelope-rejected", "decoding the envelope failed: %v", err)
			}
			if c.EnvFail {
				var junk c16Envelope
				if _, err, f := fDecode([]byte{0x0b, 0, 1, 0, 0}, &junk); f != nil || err == nil {
					if f != nil {
						return f
					}
					return failf("malformed-accepted", "a truncated envelope was accepted")
				}
			}
			dest2 := newDest(db)
			_, err2, f := fDecode(env.Payload, dest2.Interface())
			if f != nil {
				return f
			}
			if !bytes.Equal(env.Payload, in) {
				return failf("input-modified", "DecodeObject modified its input buffer, the binary field of an earlier decoded envelope (err=%v, failed call in between: %v)", err2, c.EnvFail)
			}
			if env.Note != note {
				return failf("input-modified", "decoding the payload of an envelope changed the envelope's other field: %q", env.Note)
			}
			if (err == nil) != (err2 == nil) {
				return failf("not-repeatable", "the same bytes decoded directly (err=%v) and from an envelope's payload (err=%v) disagree", err, err2)
			}
			if err == nil {
				if m := core.EqualStruct(c.Dec.S, db.Lift(dest2.Elem()), db.Lift(dest.Elem()), core.EqOpts{}, "$"); m != nil {
					return failf("not-repeatable", "the same bytes decoded directly and from an envelope's payload give different values: %s", m)
				}
			}
			w.label("decode-from-decoded-binary")
		}
		hasMapOrPtr := strings.Contains(a0, ":map@") || strings.Contains(a0, ":ptr@")
		w.count(hasMapOrPtr && c.Extra > 0, c.S.Sig()+string(first)+itoa(c.Extra), c)
		return nil
	}
}

func firstDiff(a, b string) string {
	la, lb := strings.Split(a, "\n"), strings.Split(b, "\n")
	for i := range la {
		if i >= len(lb) || la[i] != lb[i] {
			o := ""
			if i < len(lb) {
				o = lb[i]
			}
			return "before: " + la[i] + "\n after: " + o
		}
	}
	return "(lengths differ)"
}

func TestC16(t *testing.T) {
	w := newWorker(t, "C16")
	drive(t, caseRunner[c16Case]{w: w, gen: genC16, run: runC16(w), journalled: true})
}
