package checks

import (
	"encoding/json"
	"fmt"
	"os"
	"os/exec"
	"runtime"
	"runtime/debug"
	"strings"
	"testing"

	"github.com/cloudwego/frugal"
	"pgregory.net/rapid"

	"verif/harness/core"
)

// C18 — encoding and size computation are allocation-free after first use.

type c18Case struct {
	TV
	Cell string `json:"cell,omitempty"`
	// First: how the type is used for the first time, before the pointer calls that are measured:
	// 0 by pointer, 1 by value (size and encode), 2 by decoding into it, 3 nested inside a wrapper type,
	// 4 by pointer with an all-empty value (nil containers, nil pointers): the populated value is
	// then measured in one shot, without a warm-up of its own
	First int `json:"first,omitempty"`
}

func genC18(t *rapid.T) c18Case {
	c := genC18Inner(t)
	c.First = rapid.SampledFrom([]int{0, 0, 1, 1, 2, 3, 4, 4}).Draw(t, "firstuse")
	return c
}

func genC18Inner(t *rapid.T) c18Case {
	if rapid.IntRange(0, 3).Draw(t, "table") > 0 {
		tv, cell := genTableTV(t)
		return c18Case{TV: tv, Cell: cell}
	}
	cfg := c04Cfg()
	if rapid.IntRange(0, 2).Draw(t, "recursive") == 0 {
		// recursive named types with containers non-empty on several levels: the same container
		// routine is re-entered while it is already running
		name := rapid.SampledFrom([]string{"RecMV", "RecMK", "RecMix", "RecL", "RecLL", "RecH", "MutA", "MutC"}).Draw(t, "rectype")
		s := core.LookupSpec(name)
		vc := cfg
		vc.NoNil = true
		vc.ContainerMax = 3
		vc.CountChoices = []int{1, 2, 3}
		return c18Case{TV: TV{S: s, V: core.GenStructVal(t, vc, s)}, Cell: "recursive:" + name}
	}
	return c18Case{TV: genTV(cfg)(t)}
}

type c18Runner struct {
	w  *worker
	ms runtime.MemStats
	n  int
	// values of other, already used types: calls are also measured interleaved with them
	// ("once a type has been used" must hold whatever was encoded in between)
	prev []c18Prev
}

type c18Prev struct {
	pv  interface{}
	buf []byte
	sig string
}

const c18Runs = 64

func (r *c18Runner) mallocs() uint64 {
	runtime.ReadMemStats(&r.ms)
	return r.ms.Mallocs
}

// measure returns allocations per call (integer division, the AllocsPerRun discipline:
// stray runtime allocations cannot reach 64, a real per-call allocation gives >= 1).
func (r *c18Runner) measure(fn func()) uint64 {
	fn()
	fn()
	before := r.mallocs()
	for i := 0; i < c18Runs; i++ {
		fn()
	}
	return (r.mallocs() - before) / c18Runs
}

func (r *c18Runner) run(c c18Case) *Failure {
	b := core.Bind(c.S)
	src := b.NewValue(c.V)
	pv := src.Interface()
	switch c.First {
	case 1:
		bv := src.Elem().Interface()
		if _, f := encodeExact(bv); f != nil {
			return f
		}
	case 2:
		if _, _, f := fDecode(core.RefEncode(c.S, c.V), newDest(b).Interface()); f != nil {
			return f
		}
	case 3:
		wt := &core.TypeSpec{Kind: core.KStruct, Ptr: true}
		if c.S.Name != "" && core.LookupSpec(c.S.Name) == c.S {
			wt.Ref = c.S.Name
		} else {
			wt.Struct = c.S
		}
		ws := &core.StructSpec{Fields: []*core.FieldSpec{{Name: "Wrapped_1", ID: 1, Req: core.Optional, Type: wt}}}
		if _, f := encodeExact(core.Bind(ws).New().Interface()); f != nil {
			return f
		}
	case 4:
		d, f := c18EmptyThenPopulated(c)
		if f != nil {
			return f
		}
		if d != 0 {
			// one shot cannot be repeated here (the type is warm now): ask a fresh process, twice
			confirmed := 0
			for k := 0; k < 2; k++ {
				cd, err := c18Child(c)
				if err != nil {
					r.w.label("first-populated-value: child process unavailable")
					break
				}
				if cd != 0 {
					confirmed++
				}
			}
			if confirmed == 2 {
				return failf("allocates-on-first-populated-value", "after the type had been used with an empty value, EncodedSize+EncodeObject on a populated value allocated %d object(s) (confirmed twice in fresh processes) (type %s)", d, c.S.Sig())
			}
			r.w.label("first-populated-value: allocation not confirmed")
		}
	}
	r.w.label(fmt.Sprintf("first-use:%d", c.First))
	s, f := fSize(pv)
	if f != nil {
		return f
	}
	buf := make([]byte, s+64)
	if n, err, f := fEncode(buf, pv); f != nil || err != nil || n != s {
		if f != nil {
			return f
		}
		return failf("encode-error", "n=%d size=%d err=%v", n, s, err)
	}
	r.n++
	if r.n%300 == 0 {
		runtime.GC()
	}
	sizeAllocs := r.measure(func() { frugal.EncodedSize(pv) })
	if sizeAllocs != 0 {
		sizeAllocs = r.measure(func() { frugal.EncodedSize(pv) }) // re-measure once before it counts
	}
	if sizeAllocs != 0 {
		return failf("size-allocates", "EncodedSize(&v) performs %d heap allocation(s) per call after first use (type %s)", sizeAllocs, c.S.Sig())
	}
	encAllocs := r.measure(func() { frugal.EncodeObject(buf, nil, pv) })
	if encAllocs != 0 {
		encAllocs = r.measure(func() { frugal.EncodeObject(buf, nil, pv) })
	}
	if encAllocs != 0 {
		return failf("encode-allocates", "EncodeObject(buf, nil, &v) performs %d heap allocation(s) per call after first use (type %s)", encAllocs, c.S.Sig())
	}
	// interleaved with up to three other already-used types
	if len(r.prev) > 0 {
		others := r.prev
		inter := r.measure(func() {
			frugal.EncodedSize(pv)
			for i := range others {
				frugal.EncodedSize(others[i].pv)
			}
		})
		if inter != 0 {
			inter = r.measure(func() {
				frugal.EncodedSize(pv)
				for i := range others {
					frugal.EncodedSize(others[i].pv)
				}
			})
		}
		if inter != 0 {
			return failf("size-allocates-interleaved", "EncodedSize allocates %d object(s) per round when calls on %d already used types alternate (this type: %s)", inter, len(others)+1, c.S.Sig())
		}
		inter = r.measure(func() {
			frugal.EncodeObject(buf, nil, pv)
			for i := range others {
				frugal.EncodeObject(others[i].buf, nil, others[i].pv)
			}
		})
		if inter != 0 {
			inter = r.measure(func() {
				frugal.EncodeObject(buf, nil, pv)
				for i := range others {
					frugal.EncodeObject(others[i].buf, nil, others[i].pv)
				}
			})
		}
		if inter != 0 {
			return failf("encode-allocates-interleaved", "EncodeObject allocates %d object(s) per round when calls on %d already used types alternate (this type: %s)", inter, len(others)+1, c.S.Sig())
		}
		r.w.label("interleaved-with-other-types")
	}
	r.prev = append(r.prev, c18Prev{pv: pv, buf: buf, sig: c.S.Sig()})
	if len(r.prev) > 3 {
		r.prev = r.prev[1:]
	}
	nonEmpty := false
	var walk func(ts *core.TypeSpec, v core.Val)
	walk = func(ts *core.TypeSpec, v core.Val) {
		switch ts.Kind {
		case core.KList, core.KSet:
			if len(v.L) > 0 {
				nonEmpty = true
			}
		case core.KMap:
			if len(v.M) > 0 {
				nonEmpty = true
			}
		case core.KStruct:
			if !v.Nil && v.St != nil {
				for _, f := range ts.SS().Fields {
					fv := v.St.F[f.ID]
					if !(f.GoPtr && fv.Nil) {
						walk(f.Type, fv)
					}
				}
			}
		}
	}
	walk(&core.TypeSpec{Kind: core.KStruct, Struct: c.S}, core.Val{St: c.V})
	labels := sizeBranches(c.S, c.V)
	if c.Cell != "" {
		labels = append(labels, c.Cell)
	}
	r.w.count(nonEmpty, c.S.Sig()+itoa(s), c, labels...)
	return nil
}

// c18EmptyThenPopulated uses the type with its zero value (every container and pointer nil), then
// counts the heap objects allocated by one EncodedSize and one EncodeObject on the populated value.
func c18EmptyThenPopulated(c c18Case) (uint64, *Failure) {
	b := core.Bind(c.S)
	empty := b.New()
	if b.Spec.HasInit {
		empty.Interface().(interface{ InitDefault() }).InitDefault()
	}
	for k := 0; k < 3; k++ {
		if _, f := encodeExact(empty.Interface()); f != nil {
			return 0, f
		}
	}
	src := b.NewValue(c.V)
	pv := src.Interface()
	buf := make([]byte, len(core.RefEncode(c.S, c.V))+256)
	// the Go runtime itself allocates once per map *value* when a map without pointers in its buckets is
	// iterated for the first time (overflow bookkeeping): walk the value once, without frugal, so
	// that only what the codec allocates is counted
	b.Lift(src.Elem())
	var ms runtime.MemStats
	var n1, n2 int
	var e2 error
	runtime.ReadMemStats(&ms)
	before := ms.Mallocs
	n1 = frugal.EncodedSize(pv)
	n2, e2 = frugal.EncodeObject(buf, nil, pv)
	runtime.ReadMemStats(&ms)
	d := ms.Mallocs - before
	if e2 != nil || n1 != n2 {
		return 0, failf("encode-error", "size=%d n=%d err=%v", n1, n2, e2)
	}
	return d, nil
}

// c18Child runs c18EmptyThenPopulated in a brand-new process.
func c18Child(c c18Case) (uint64, error) {
	js, _ := json.Marshal(c)
	fl, err := os.CreateTemp("", "c18case-*.json")
	if err != nil {
		return 0, err
	}
	defer os.Remove(fl.Name())
	fl.Write(js)
	fl.Close()
	cmd := exec.Command(os.Args[0], "-test.run", "^TestC18Single$")
	for _, e := range os.Environ() {
		if strings.HasPrefix(e, "VERIF_OUT=") || strings.HasPrefix(e, "VERIF_FAILDIR=") || strings.HasPrefix(e, "VERIF_JOURNAL=") || strings.HasPrefix(e, "VERIF_REPLAY=") {
			continue
		}
		cmd.Env = append(cmd.Env, e)
	}
	cmd.Env = append(cmd.Env, "VERIF_C18_SINGLE="+fl.Name())
	out, err := cmd.CombinedOutput()
	for _, line := range strings.Split(string(out), "\n") {
		if strings.HasPrefix(line, "C18RESULT ") {
			var d uint64
			if _, serr := fmt.Sscanf(line, "C18RESULT %d", &d); serr == nil {
				return d, nil
			}
		}
	}
	return 0, fmt.Errorf("no result (%v): %.300s", err, out)
}

func TestC18Single(t *testing.T) {
	fn := os.Getenv("VERIF_C18_SINGLE")
	if fn == "" {
		t.Skip("helper of TestC18")
	}
	runtime.GOMAXPROCS(1)
	debug.SetGCPercent(-1)
	js, err := os.ReadFile(fn)
	if err != nil {
		t.Fatal(err)
	}
	var c c18Case
	if err := json.Unmarshal(js, &c); err != nil {
		t.Fatal(err)
	}
	d, f := c18EmptyThenPopulated(c)
	if f != nil {
		fmt.Println("C18RESULT 0")
		return
	}
	fmt.Printf("C18RESULT %d\n", d)
}

func TestC18(t *testing.T) {
	runtime.GOMAXPROCS(1)
	debug.SetGCPercent(-1)
	w := newWorker(t, "C18")
	r := &c18Runner{w: w}
	drive(t, caseRunner[c18Case]{w: w, gen: genC18, run: r.run, journalled: true})
}
