package checks

import (
	"fmt"
	"runtime"
	"runtime/debug"
	"testing"

	"github.com/cloudwego/frugal"
	"pgregory.net/rapid"

	"verif/harness/core"
)

// C18 — encoding and size computation are allocation-free after first use.

type c18Case struct {
	TV
	Cell string `json:"cell,omitempty"`
	// First: how the type is used for the first time, before the pointer calls that are measured:
	// 0 by pointer, 1 by value (size and encode), 2 by decoding into it, 3 nested inside a wrapper type
	First int `json:"first,omitempty"`
}

func genC18(t *rapid.T) c18Case {
	c := genC18Inner(t)
	c.First = rapid.SampledFrom([]int{0, 0, 1, 1, 2, 3}).Draw(t, "firstuse")
	return c
}

func genC18Inner(t *rapid.T) c18Case {
	if rapid.IntRange(0, 3).Draw(t, "table") > 0 {
		tv, cell := genTableTV(t)
		return c18Case{TV: tv, Cell: cell}
	}
	cfg := c04Cfg()
	if rapid.IntRange(0, 2).Draw(t, "recursive") == 0 {
		// recursive named types with containers non-empty on several levels: the same container
		// routine is re-entered while it is already running
		name := rapid.SampledFrom([]string{"RecMV", "RecMK", "RecMix", "RecL", "RecLL", "RecH", "MutA", "MutC"}).Draw(t, "rectype")
		s := core.LookupSpec(name)
		vc := cfg
		vc.NoNil = true
		vc.ContainerMax = 3
		vc.CountChoices = []int{1, 2, 3}
		return c18Case{TV: TV{S: s, V: core.GenStructVal(t, vc, s)}, Cell: "recursive:" + name}
	}
	return c18Case{TV: genTV(cfg)(t)}
}

type c18Runner struct {
	w  *worker
	ms runtime.MemStats
	n  int
	// values of other, already used types: calls are also measured interleaved with them
	// ("once a type has been used" must hold whatever was encoded in between)
	prev []c18Prev
}

type c18Prev struct {
	pv  interface{}
	buf []byte
	sig string
}

const c18Runs = 64

func (r *c18Runner) mallocs() uint64 {
	runtime.ReadMemStats(&r.ms)
	return r.ms.Mallocs
}

// measure returns allocations per call (integer division, the AllocsPerRun discipline:
// stray runtime allocations cannot reach 64, a real per-call allocation gives >= 1).
func (r *c18Runner) measure(fn func()) uint64 {
	fn()
	fn()
	before := r.mallocs()
	for i := 0; i < c18Runs; i++ {
		fn()
	}
	return (r.mallocs() - before) / c18Runs
}

func (r *c18Runner) run(c c18Case) *Failure {
	b := core.Bind(c.S)
	src := b.NewValue(c.V)
	pv := src.Interface()
	switch c.First {
	case 1:
		bv := src.Elem().Interface()
		if _, f := encodeExact(bv); f != nil {
			return f
		}
	case 2:
		if _, _, f := fDecode(core.RefEncode(c.S, c.V), newDest(b).Interface()); f != nil {
			return f
		}
	case 3:
		wt := &core.TypeSpec{Kind: core.KStruct, Ptr: true}
		if c.S.Name != "" && core.LookupSpec(c.S.Name) == c.S {
			wt.Ref = c.S.Name
		} else {
			wt.Struct = c.S
		}
		ws := &core.StructSpec{Fields: []*core.FieldSpec{{Name: "Wrapped_1", ID: 1, Req: core.Optional, Type: wt}}}
		if _, f := encodeExact(core.Bind(ws).New().Interface()); f != nil {
			return f
		}
	}
	r.w.label(fmt.Sprintf("first-use:%d", c.First))
	s, f := fSize(pv)
	if f != nil {
		return f
	}
	buf := make([]byte, s+64)
	if n, err, f := fEncode(buf, pv); f != nil || err != nil || n != s {
		if f != nil {
			return f
		}
		return failf("encode-error", "n=%d size=%d err=%v", n, s, err)
	}
	r.n++
	if r.n%300 == 0 {
		runtime.GC()
	}
	sizeAllocs := r.measure(func() { frugal.EncodedSize(pv) })
	if sizeAllocs != 0 {
		sizeAllocs = r.measure(func() { frugal.EncodedSize(pv) }) // re-measure once before it counts
	}
	if sizeAllocs != 0 {
		return failf("size-allocates", "EncodedSize(&v) performs %d heap allocation(s) per call after first use (type %s)", sizeAllocs, c.S.Sig())
	}
	encAllocs := r.measure(func() { frugal.EncodeObject(buf, nil, pv) })
	if encAllocs != 0 {
		encAllocs = r.measure(func() { frugal.EncodeObject(buf, nil, pv) })
	}
	if encAllocs != 0 {
		return failf("encode-allocates", "EncodeObject(buf, nil, &v) performs %d heap allocation(s) per call after first use (type %s)", encAllocs, c.S.Sig())
	}
	// interleaved with up to three other already-used types
	if len(r.prev) > 0 {
		others := r.prev
		inter := r.measure(func() {
			frugal.EncodedSize(pv)
			for i := range others {
				frugal.EncodedSize(others[i].pv)
			}
		})
		if inter != 0 {
			inter = r.measure(func() {
				frugal.EncodedSize(pv)
				for i := range others {
					frugal.EncodedSize(others[i].pv)
				}
			})
		}
		if inter != 0 {
			return failf("size-allocates-interleaved", "EncodedSize allocates %d object(s) per round when calls on %d already used types alternate (this type: %s)", inter, len(others)+1, c.S.Sig())
		}
		inter = r.measure(func() {
			frugal.EncodeObject(buf, nil, pv)
			for i := range others {
				frugal.EncodeObject(others[i].buf, nil, others[i].pv)
			}
		})
		if inter != 0 {
			inter = r.measure(func() {
				frugal.EncodeObject(buf, nil, pv)
				for i := range others {
					frugal.EncodeObject(others[i].buf, nil, others[i].pv)
				}
			})
		}
		if inter != 0 {
			return failf("encode-allocates-interleaved", "EncodeObject allocates %d object(s) per round when calls on %d already used types alternate (this type: %s)", inter, len(others)+1, c.S.Sig())
		}
		r.w.label("interleaved-with-other-types")
	}
	r.prev = append(r.prev, c18Prev{pv: pv, buf: buf, sig: c.S.Sig()})
	if len(r.prev) > 3 {
		r.prev = r.prev[1:]
	}
	nonEmpty := false
	var walk func(ts *core.TypeSpec, v core.Val)
	walk = func(ts *core.TypeSpec, v core.Val) {
		switch ts.Kind {
		case core.KList, core.KSet:
			if len(v.L) > 0 {
				nonEmpty = true
			}
		case core.KMap:
			if len(v.M) > 0 {
				nonEmpty = true
			}
		case core.KStruct:
			if !v.Nil && v.St != nil {
				for _, f := range ts.SS().Fields {
					fv := v.St.F[f.ID]
					if !(f.GoPtr && fv.Nil) {
						walk(f.Type, fv)
					}
				}
			}
		}
	}
	walk(&core.TypeSpec{Kind: core.KStruct, Struct: c.S}, core.Val{St: c.V})
	labels := sizeBranches(c.S, c.V)
	if c.Cell != "" {
		labels = append(labels, c.Cell)
	}
	r.w.count(nonEmpty, c.S.Sig()+itoa(s), c, labels...)
	return nil
}

func TestC18(t *testing.T) {
	runtime.GOMAXPROCS(1)
	debug.SetGCPercent(-1)
	w := newWorker(t, "C18")
	r := &c18Runner{w: w}
	drive(t, caseRunner[c18Case]{w: w, gen: genC18, run: r.run, journalled: true})
}
