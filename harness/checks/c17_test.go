package checks

import (
	"crypto/sha256"
	"encoding/json"
	"fmt"
	"math"
	"os"
	"os/exec"
	"reflect"
	"strings"
	"sync"
	"testing"

	"github.com/cloudwego/frugal"
	fdebug "github.com/cloudwego/frugal/debug"
	"pgregory.net/rapid"

	"verif/harness/core"
)

// C17 — legacy JIT controls are inert: no setting changes any result.
// The driver starts the worker processes with different FRUGAL_MAX_INLINE_* values
// (all valid); inside, legacy calls are interleaved with codec calls.

type legacyOp struct {
	Kind string `json:"k"` // pretouch, nojit, setdepth, setil, stats
	Arg  int    `json:"a"`
	What string `json:"w,omitempty"` // pretouch argument kind
	Opts []int  `json:"o,omitempty"` // option constructors: index*4 + boundary
}

type c17Case struct {
	TV
	Msg    []byte       `json:"msg"`
	Before [][]legacyOp `json:"legacy"` // legacy calls placed before size, encode, decode, and after
	// Cluster: Pretouch a member of a not-yet-used recursive cluster with an invalid member,
	// then the C13 history over that cluster must still see every member rejected
	Cluster    *c13Case `json:"cluster,omitempty"`
	TouchFirst []int    `json:"touch,omitempty"` // members pretouched first (0..6), form = index%3
}

var boundaryInts = []int{0, -1, 1, 2, math.MaxInt, math.MinInt, 256, 50000}

func genLegacy(t *rapid.T) []legacyOp {
	n := rapid.IntRange(0, 4).Draw(t, "nlegacy")
	var out []legacyOp
	for i := 0; i < n; i++ {
		op := legacyOp{Kind: rapid.SampledFrom([]string{"pretouch", "pretouch", "nojit", "setdepth", "setil", "stats"}).Draw(t, "lk"),
			Arg: rapid.SampledFrom(boundaryInts).Draw(t, "la")}
		if op.Kind == "pretouch" {
			op.What = rapid.SampledFrom([]string{"type", "ptrtype", "value", "ptrvalue", "invalid-type", "nil", "int", "map", "reflect-type-of-int"}).Draw(t, "lw")
			for j := rapid.IntRange(0, 3).Draw(t, "nopts"); j > 0; j-- {
				op.Opts = append(op.Opts, rapid.IntRange(0, 3*len(boundaryInts)-1).Draw(t, "lo"))
			}
		}
		out = append(out, op)
	}
	return out
}

func genC17(t *rapid.T) c17Case {
	cfg := c04Cfg()
	cfg.Huge = false // cases travel to a control process
	c := c17Case{TV: genTV(cfg)(t)}
	v2 := core.GenStructVal(t, cfg, c.S)
	e := fullEdit
	e.OddBool = rapid.IntRange(0, 2).Draw(t, "oddbools") == 0
	c.Msg, _ = genWireMsg(t, c.S, v2, e)
	for i := 0; i < 4; i++ {
		c.Before = append(c.Before, genLegacy(t))
	}
	if rapid.IntRange(0, 9).Draw(t, "withcluster") == 0 {
		cc := c13Case{Cluster: true}
		n := rapid.IntRange(2, 6).Draw(t, "ncops")
		for i := 0; i < n; i++ {
			cc.COps = append(cc.COps, c13COp{Op: rapid.SampledFrom([]string{"size", "encode", "decode"}).Draw(t, "cop"),
				Member: rapid.IntRange(0, 6).Draw(t, "member"), BV: rapid.Bool().Draw(t, "cbv")})
		}
		c.Cluster = &cc
		c.TouchFirst = rapid.SliceOfN(rapid.IntRange(0, 20), 1, 3).Draw(t, "touch")
	}
	return c
}

type invalidForPretouch struct {
	X uint32 `frugal:"1,default,i32"`
	Y []int  `frugal:"2,default"`
}

func runLegacy(ops []legacyOp, b *core.Bound, src reflect.Value) *Failure {
	for _, op := range ops {
		var f *Failure
		switch op.Kind {
		case "nojit":
			f = safely("NoJIT", func() { frugal.NoJIT(op.Arg%2 == 0) })
		case "setdepth":
			var r int
			f = safely("SetMaxInlineDepth", func() { r = frugal.SetMaxInlineDepth(op.Arg) })
			if f == nil && r != op.Arg {
				return failf("setter-return", "SetMaxInlineDepth(%d) returned %d", op.Arg, r)
			}
		case "setil":
			var r int
			f = safely("SetMaxInlineILSize", func() { r = frugal.SetMaxInlineILSize(op.Arg) })
			if f == nil && r != op.Arg {
				return failf("setter-return", "SetMaxInlineILSize(%d) returned %d", op.Arg, r)
			}
		case "stats":
			var st fdebug.Stats
			f = safely("debug.GetStats", func() { st = fdebug.GetStats() })
			_ = st // what the statistics say is not part of the property; only that asking is harmless
		case "pretouch":
			var arg interface{}
			switch op.What {
			case "type":
				arg = b.Type
			case "ptrtype":
				arg = reflect.PointerTo(b.Type)
			case "value":
				arg = src.Elem().Interface()
			case "ptrvalue":
				arg = src.Interface()
			case "invalid-type":
				arg = reflect.TypeOf(invalidForPretouch{})
			case "nil":
				arg = nil
			case "int":
				arg = op.Arg
			case "map":
				arg = map[string]int{"a": op.Arg}
			case "reflect-type-of-int":
				arg = reflect.TypeOf(0)
			}
			var opts []frugal.Option
			for _, o := range op.Opts {
				bv := boundaryInts[o%len(boundaryInts)]
				switch o / len(boundaryInts) {
				case 0:
					opts = append(opts, frugal.WithMaxInlineDepth(bv))
				case 1:
					opts = append(opts, frugal.WithMaxInlineILSize(bv))
				default:
					opts = append(opts, frugal.WithMaxPretouchDepth(bv))
				}
			}
			var err error
			f = safely("Pretouch", func() { err = frugal.Pretouch(arg, opts...) })
			if f == nil && err != nil {
				return failf("pretouch-error", "Pretouch(%s) returned %v", op.What, err)
			}
		}
		if f != nil {
			return f
		}
	}
	return nil
}

// c17Outcome is everything the codec returns for one case, in a form that can be compared
// between processes: it is computed once in this process (legacy calls made, environment set)
// and once in a brand-new process that has an empty FRUGAL_* environment and never makes a
// legacy call. "No setting changes any result" is literally outcome == outcome.
type c17Outcome struct {
	Size   int    `json:"size"`
	Enc    string `json:"enc"`    // canonical (map entries sorted) encoding of the value
	DecN   int    `json:"decn"`   // DecodeObject(msg): consumed
	DecErr bool   `json:"decerr"` // ... failed
	Dec    string `json:"dec"`    // ... canonical rendering of the destination
	ReEnc  string `json:"reenc"`  // encoding of the decoded destination (keeps what Go values cannot show, e.g. the byte held by a bool)
	Fail   string `json:"fail,omitempty"`
}

func canonOrRaw(b []byte) string {
	if c, err := core.Canon(b); err == nil {
		b = c
	}
	h := sha256.Sum256(b)
	return fmt.Sprintf("%d:%x", len(b), h[:12])
}

func c17Codec(c c17Case) (o c17Outcome) {
	b := core.Bind(c.S)
	src := b.NewValue(c.V)
	enc, f := encodeExact(src.Interface())
	if f != nil {
		o.Fail = "encode: " + f.Class
		return
	}
	o.Size, o.Enc = len(enc), canonOrRaw(enc)
	dest := newDest(b)
	n, err, f := fDecode(append([]byte{}, c.Msg...), dest.Interface())
	if f != nil {
		o.Fail = "decode: " + f.Class
		return
	}
	o.DecN, o.DecErr = n, err != nil
	if err != nil {
		return
	}
	if f := safely("reading the decoded object", func() { o.Dec = core.CanonStruct(c.S, b.Lift(dest.Elem())) }); f != nil {
		o.Fail = "lift: " + f.Class
		return
	}
	h := sha256.Sum256([]byte(o.Dec))
	o.Dec = fmt.Sprintf("%x", h[:12])
	re, f := encodeExact(dest.Interface())
	if f != nil {
		o.Fail = "re-encode: " + f.Class
		return
	}
	o.ReEnc = canonOrRaw(re)
	return
}

// controlOutcome computes the outcome of the case in a fresh control process.
func controlOutcome(c c17Case) (c17Outcome, error) {
	var res c17Outcome
	cc := c17Case{TV: c.TV, Msg: c.Msg}
	js, _ := json.Marshal(cc)
	fl, err := os.CreateTemp("", "c17case-*.json")
	if err != nil {
		return res, err
	}
	defer os.Remove(fl.Name())
	fl.Write(js)
	fl.Close()
	cmd := exec.Command(os.Args[0], "-test.run", "^TestC17Single$")
	for _, e := range os.Environ() {
		if strings.HasPrefix(e, "FRUGAL_") || strings.HasPrefix(e, "VERIF_OUT=") || strings.HasPrefix(e, "VERIF_FAILDIR=") ||
			strings.HasPrefix(e, "VERIF_JOURNAL=") || strings.HasPrefix(e, "VERIF_REPLAY=") {
			continue
		}
		cmd.Env = append(cmd.Env, e)
	}
	cmd.Env = append(cmd.Env, "VERIF_C17_SINGLE="+fl.Name(), "VERIF_C17_CONTROL=1")
	out, err := cmd.CombinedOutput()
	for _, line := range strings.Split(string(out), "\n") {
		if strings.HasPrefix(line, "C17RESULT ") {
			if jerr := json.Unmarshal([]byte(line[len("C17RESULT "):]), &res); jerr == nil {
				return res, nil
			}
		}
	}
	return res, fmt.Errorf("control process gave no result (%v): %.600s", err, out)
}

func TestC17Single(t *testing.T) {
	fn := os.Getenv("VERIF_C17_SINGLE")
	if fn == "" {
		t.Skip("helper of TestC17")
	}
	js, err := os.ReadFile(fn)
	if err != nil {
		t.Fatal(err)
	}
	var c c17Case
	if err := json.Unmarshal(js, &c); err != nil {
		t.Fatal(err)
	}
	b, _ := json.Marshal(c17Codec(c))
	fmt.Println("C17RESULT " + string(b))
}

func runC17(w *worker) func(c c17Case) *Failure {
	control := os.Getenv("VERIF_C17_CONTROL") == "1"
	envLabel := fmt.Sprintf("env:DEPTH=%s,IL=%s", os.Getenv("FRUGAL_MAX_INLINE_DEPTH"), os.Getenv("FRUGAL_MAX_INLINE_IL_SIZE"))
	return func(c c17Case) *Failure {
		b := core.Bind(c.S)
		src := b.NewValue(c.V)
		legacy := func(i int) *Failure {
			if control {
				return nil // the control process makes no legacy call at all
			}
			return runLegacy(c.Before[i], b, src)
		}
		if f := legacy(0); f != nil {
			return f
		}
		// codec results of C01-C04 under this configuration
		s, f := fSize(src.Interface())
		if f != nil {
			return f
		}
		if f := legacy(1); f != nil {
			return f
		}
		buf := make([]byte, s+8)
		n, err, f := fEncode(buf, src.Interface())
		if f != nil {
			return f
		}
		if err != nil || n != s {
			return failf("encode-error", "n=%d size=%d err=%v", n, s, err)
		}
		ok, want, perr := matchesRef(buf[:n], c.S, c.V)
		if perr != nil || !ok {
			return failf("encoding-differs", "under %s the output differs from the reference encoding (%v)\n got: %s\nwant: %s", envLabel, perr, hexs(buf[:n]), hexs(want))
		}
		if f := legacy(2); f != nil {
			return f
		}
		if _, f := checkDecodeAgainstModel(decCase{S: c.S, Msg: c.Msg}); f != nil {
			f.Msg = "under " + envLabel + ": " + f.Msg
			return f
		}
		if f := legacy(3); f != nil {
			return f
		}
		// another value of the same type, handed over by value (legacy calls were given src, its address
		// and its type: whatever they did with them, src is the caller's and must come out unchanged)
		other := reflect.New(b.Type).Elem().Interface()
		if _, f := fSize(other); f != nil {
			return f
		}
		if _, f := encodeExact(other); f != nil {
			return f
		}
		// and once more after the trailing legacy calls: same type, same value
		out2, f := encodeExact(src.Interface())
		if f != nil {
			return f
		}
		if ok, _, _ := matchesRef(out2, c.S, c.V); !ok {
			return failf("encoding-differs", "after legacy calls the output differs from the reference encoding")
		}
		// differential against a fresh process without any legacy control: every case whose message
		// is accepted with a value Go cannot show (gray), and one in three of the others
		if !control {
			here := c17Codec(c)
			hs := sha256.Sum256(append([]byte(c.S.Sig()), c.Msg...))
			if here.Fail != "" {
				return failf("outcome-failed", "under %s: %s", envLabel, here.Fail)
			}
			if hs[0]%3 == 0 || (!here.DecErr && c17HasOddBool(c.Msg)) {
				there, err := controlOutcome(c)
				if err != nil {
					w.label("control-process-unavailable") // no comparison made: not evidence of anything
				} else if there.Fail != "" {
					return failf("outcome-failed", "in a fresh process without legacy calls: %s", there.Fail)
				} else if here != there {
					return failf("differs-from-control", "under %s with legacy calls %v the codec results differ from a fresh process without any:\n here: %+v\nthere: %+v", envLabel, c.Before, here, there)
				}
				if err == nil {
					w.label("compared-with-control-process")
					if c17HasOddBool(c.Msg) && !here.DecErr {
						w.label("compared-with-control-process:odd-bool-byte")
					}
				}
			}
		}
		// ... and under concurrent use: after the legacy calls of this case (and of every earlier case of
		// this process) eight goroutines repeat the codec calls at the same time; each must see the
		// sequential outcome
		madeCalls := false
		for _, l := range c.Before {
			if len(l) > 0 {
				madeCalls = true
			}
		}
		if hs := sha256.Sum256(append([]byte(c.S.Sig()), c.Msg...)); hs[1]%3 == 0 || (madeCalls && !control && hs[1]%3 == 1) {
			want := c17Codec(c)
			if want.Fail == "" {
				var wg sync.WaitGroup
				var mu sync.Mutex
				var bad *c17Outcome
				var badLegacy *Failure
				for g := 0; g < 8; g++ {
					wg.Add(1)
					g := g
					go func() {
						defer wg.Done()
						for k := 0; k < 6; k++ {
							if !control && g%2 == 1 {
								// "every placement of such calls" includes next to other goroutines' calls: half of
								// the goroutines repeat this case's legacy calls, each with arguments of its own
								for _, l := range c.Before {
									ops := append([]legacyOp{}, l...)
									for i := range ops {
										ops[i].Arg += 1000*g + k
									}
									if lf := runLegacy(ops, b, src); lf != nil {
										mu.Lock()
										badLegacy = lf
										mu.Unlock()
										return
									}
								}
							}
							if got := c17Codec(c); got != want {
								mu.Lock()
								bad = &got
								mu.Unlock()
								return
							}
						}
					}()
				}
				wg.Wait()
				if badLegacy != nil {
					badLegacy.Msg = "while other goroutines make codec and legacy calls: " + badLegacy.Msg
					return badLegacy
				}
				if bad != nil {
					return failf("differs-under-concurrency", "under %s, after legacy calls, concurrent calls on private values and buffers return %+v, the same calls made alone %+v", envLabel, *bad, want)
				}
				w.label("repeated-concurrently")
			}
		}
		if c.Cluster != nil && !control && c13NextCluster < len(invClusters) {
			types := invClusters[c13NextCluster]
			for _, m := range c.TouchFirst {
				rt := types[m%7]
				var arg interface{}
				switch m % 3 {
				case 0:
					arg = reflect.New(rt).Interface()
				case 1:
					arg = rt
				default:
					arg = reflect.New(rt).Elem().Interface()
				}
				var err error
				if f := safely("Pretouch", func() { err = frugal.Pretouch(arg) }); f != nil {
					return f
				}
				if err != nil {
					return failf("pretouch-error", "Pretouch(%s) returned %v", rt, err)
				}
			}
			// Pretouch must not have changed what the codec accepts
			if f := runC13Cluster(&worker{hashes: map[uint64]struct{}{}, classes: map[string]int{}, excl: map[string]int{}}, *c.Cluster); f != nil {
				f.Msg = "after Pretouch on members of the cluster: " + f.Msg
				return f
			}
			w.label("pretouch-then-invalid-cluster")
		}
		nl := 0
		for _, l := range c.Before {
			nl += len(l)
		}
		labels := []string{envLabel}
		if control {
			labels = append(labels, "control-process")
		}
		nondefault := os.Getenv("FRUGAL_MAX_INLINE_DEPTH") != "" || os.Getenv("FRUGAL_MAX_INLINE_IL_SIZE") != ""
		w.count(nondefault && nl >= 3 && !control, envLabel+fmt.Sprint(c.Before)+c.S.Sig(), c, labels...)
		return nil
	}
}

func TestC17(t *testing.T) {
	w := newWorker(t, "C17")
	drive(t, caseRunner[c17Case]{w: w, gen: genC17, run: runC17(w), journalled: true})
}

// c17HasOddBool: some bool on the wire holds a byte other than 0 and 1 (schema-less scan).
func c17HasOddBool(msg []byte) bool {
	n, _, err := core.ParseStruct(msg, 1<<20)
	if err != nil {
		return false
	}
	return n.AnyBool(func(b byte) bool { return b > 1 })
}
