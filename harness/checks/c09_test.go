package checks

import (
	"testing"

	"pgregory.net/rapid"

	"verif/harness/core"
)

// C09 — required fields are enforced on decode and always written on encode.

type c09Case struct {
	S        *core.StructSpec `json:"s"`
	V        *core.SVal       `json:"v"`                  // the value: encoder half (zero/nil required fields)
	Msg      []byte           `json:"msg"`                // decoder half: message with required fields dropped/retyped
	Pre      [][]byte         `json:"pre,omitempty"`      // messages decoded first into the same type (pooled presence set)
	PreOther *decCase         `json:"preother,omitempty"` // a decode of another type using the same ids first
	Dropped  int              `json:"dropped"`
}

func c09Cfg() core.GenCfg {
	c := c01Cfg()
	c.Huge = false
	c.RequiredBias = 55
	c.MaxBytes = 2048
	c.ContainerMax = 6
	return c
}

// dropRequired walks spec and wire tree together and removes / retypes required fields.
func dropRequired(t *rapid.T, s *core.StructSpec, n *core.WNode, dropped *int) {
	var val func(ts *core.TypeSpec, v *core.WNode)
	val = func(ts *core.TypeSpec, v *core.WNode) {
		switch ts.Kind {
		case core.KStruct:
			if v.T == core.WStruct {
				dropRequired(t, ts.SS(), v, dropped)
			}
		case core.KList, core.KSet:
			for i := range v.Elems {
				val(ts.Elem, &v.Elems[i])
			}
		case core.KMap:
			for i := range v.Keys {
				val(ts.Key, &v.Keys[i])
				val(ts.Elem, &v.Vals[i])
			}
		}
	}
	var keep []core.WField
	here := 0
	// structs with many required fields: half of the time exactly one of them is taken away (with
	// independent edits some early one is always missing as well, and a check that stops early,
	// or covers only so many fields, still reports an error)
	nreq, single, seenReq := 0, -1, 0
	for i := range n.Fields {
		if f := s.ByID(n.Fields[i].ID); f != nil && f.Type.WT() == n.Fields[i].T && f.Req == core.Required {
			nreq++
		}
	}
	if nreq > 8 && rapid.Bool().Draw(t, "singledrop") {
		single = rapid.IntRange(0, nreq-1).Draw(t, "singledropat")
	}
	for i := range n.Fields {
		wf := n.Fields[i]
		f := s.ByID(wf.ID)
		if f == nil || f.Type.WT() != wf.T {
			keep = append(keep, wf)
			continue
		}
		val(f.Type, &wf.V)
		if f.Req == core.Required && single >= 0 {
			seenReq++
			if seenReq-1 == single {
				*dropped++
				here++
				continue
			}
			keep = append(keep, wf)
			continue
		}
		if f.Req == core.Required {
			switch rapid.IntRange(0, 7).Draw(t, "reqedit") {
			case 0, 1:
				*dropped++
				here++
				continue
			case 2:
				v, wt := genForeignValue(t, int(wf.T))
				wf.T, wf.V = wt, v
				*dropped++
				here++
			}
		}
		keep = append(keep, wf)
	}
	// a second occurrence of a field that is there does not stand in for one that is not: repeat
	// known fields (required ones first) as many times as fields were taken away - and now and then
	// in a complete struct, where it must do no harm
	ndup := 0
	if here > 0 && rapid.Bool().Draw(t, "standin") {
		ndup = here
	} else if here == 0 && rapid.IntRange(0, 9).Draw(t, "harmlessdup") == 0 {
		ndup = 1
	}
	for ; ndup > 0 && len(keep) > 0; ndup-- {
		var cands []int
		for i, wf := range keep {
			if f := s.ByID(wf.ID); f != nil && f.Type.WT() == wf.T && f.Req == core.Required {
				cands = append(cands, i)
			}
		}
		if len(cands) == 0 {
			for i, wf := range keep {
				if f := s.ByID(wf.ID); f != nil && f.Type.WT() == wf.T {
					cands = append(cands, i)
				}
			}
		}
		if len(cands) == 0 {
			break
		}
		k := cands[rapid.IntRange(0, len(cands)-1).Draw(t, "dupwhich")]
		pos := rapid.IntRange(0, len(keep)).Draw(t, "duppos")
		cp := keep[k]
		keep = append(keep, core.WField{})
		copy(keep[pos+1:], keep[pos:])
		keep[pos] = cp
	}
	n.Fields = keep
}

// zeroRequired sets required fields to their zero/nil Go value here and there.
func zeroRequired(t *rapid.T, s *core.StructSpec, v *core.SVal) {
	for _, f := range s.Fields {
		if f.Req == core.Required && rapid.Bool().Draw(t, "zeroreq") {
			v.F[f.ID] = core.ZeroField(f)
		}
	}
}

// zeroSizeSpec: structs that occupy no memory (no fields, or only fields that are such structs, held
// by value) still have a wire form, and their required fields are required like any other.
func zeroSizeSpec(t *rapid.T) *core.StructSpec {
	empty := &core.StructSpec{}
	byv := func(s *core.StructSpec) *core.TypeSpec { return &core.TypeSpec{Kind: core.KStruct, Struct: s} }
	marker := &core.StructSpec{Fields: []*core.FieldSpec{{Name: "Zq_E", ID: uint16(rapid.SampledFrom([]int{1, 2, 64, 300}).Draw(t, "zid")), Req: core.Required, Type: byv(empty)}}}
	marker2 := &core.StructSpec{Fields: []*core.FieldSpec{{Name: "Zq_A", ID: 1, Req: core.Required, Type: byv(marker)}, {Name: "Zo_B", ID: 2, Req: core.Optional, Type: byv(empty)}}}
	elem := marker
	if rapid.Bool().Draw(t, "zelem2") {
		elem = marker2
	}
	i32 := &core.TypeSpec{Kind: core.KI32}
	all := []*core.FieldSpec{
		{Name: "Z_L", ID: 1, Type: &core.TypeSpec{Kind: core.KList, Elem: byv(elem)}},
		{Name: "Z_S", ID: 2, Type: &core.TypeSpec{Kind: core.KSet, Elem: byv(marker)}},
		{Name: "Z_M", ID: 3, Type: &core.TypeSpec{Kind: core.KMap, Key: i32, Elem: byv(elem)}},
		{Name: "Zq_F", ID: 4, Req: core.Required, Type: byv(marker2)},
		{Name: "Z_P", ID: 5, Type: &core.TypeSpec{Kind: core.KList, Elem: &core.TypeSpec{Kind: core.KStruct, Struct: marker, Ptr: true}}},
		{Name: "Z_N", ID: 6, Type: i32},
	}
	out := &core.StructSpec{}
	for _, f := range all {
		if rapid.IntRange(0, 2).Draw(t, "zkeep") > 0 {
			out.Fields = append(out.Fields, f)
		}
	}
	if len(out.Fields) == 0 {
		out.Fields = append(out.Fields, all[0])
	}
	return out
}

func genC09(t *rapid.T) c09Case {
	cfg := c09Cfg()
	tv := genTV(cfg)(t)
	if rapid.IntRange(0, 11).Draw(t, "zerosize") == 0 {
		tv.S = zeroSizeSpec(t)
		tv.V = core.GenStructVal(t, core.GenCfg{NoNil: true, CountChoices: []int{1, 2, 3}, MaxBytes: 512}, tv.S)
	}
	zeroRequired(t, tv.S, tv.V)
	c := c09Case{S: tv.S, V: tv.V}
	enc := core.RefEncode(tv.S, tv.V)
	tree, _, err := core.ParseStruct(enc, 1<<20)
	if err != nil {
		panic(err)
	}
	// shuffle/insert so that required fields sit anywhere among known and unknown ones
	stats := map[string]int{}
	editStruct(t, &tree, wireEditCfg{Shuffle: true, Insert: true, MaxInsert: 2}, 0, stats)
	if rapid.IntRange(0, 4).Draw(t, "dropany") > 0 {
		dropRequired(t, tv.S, &tree, &c.Dropped)
	}
	c.Msg = tree.Emit(nil, false)
	np := rapid.IntRange(0, 3).Draw(t, "npre")
	for i := 0; i < np; i++ {
		if rapid.Bool().Draw(t, "prefull") {
			c.Pre = append(c.Pre, enc) // every required field present: sets all presence bits
		} else {
			v2 := core.GenStructVal(t, cfg, tv.S)
			c.Pre = append(c.Pre, core.RefEncode(tv.S, v2))
		}
	}
	if rapid.IntRange(0, 2).Draw(t, "preother") == 0 && len(tv.S.Fields) > 0 {
		// another type with the same ids, all present
		o := &core.StructSpec{}
		ov := &core.SVal{F: map[uint16]core.Val{}}
		for _, f := range tv.S.Fields {
			// the same ids, present on the wire; required in one variant, optional in the other (bits of
			// non-required fields are set in the pooled presence set as well)
			rq := core.Required
			if tv.S.Fields[0].ID%2 == 1 || f.ID >= 64 {
				rq = core.Optional
			}
			o.Fields = append(o.Fields, &core.FieldSpec{Name: "O" + f.Name, ID: f.ID, Req: rq, Type: &core.TypeSpec{Kind: core.KI64}})
			ov.F[f.ID] = core.Val{I: 1}
		}
		c.PreOther = &decCase{S: o, Msg: core.RefEncode(o, ov)}
	}
	return c
}

// requiredPresent checks that every struct in the encoder's output carries all its
// required fields with the declared wire type.
func requiredPresent(s *core.StructSpec, n *core.WNode, path string) *Failure {
	for _, f := range s.Fields {
		if f.Req != core.Required {
			continue
		}
		found := false
		for i := range n.Fields {
			if n.Fields[i].ID == f.ID && n.Fields[i].T == f.Type.WT() {
				found = true
			}
		}
		if !found {
			return failf("required-not-written", "encoder omitted required field %s (id %d) of %s", f.Name, f.ID, path)
		}
	}
	var val func(ts *core.TypeSpec, v *core.WNode, p string) *Failure
	val = func(ts *core.TypeSpec, v *core.WNode, p string) *Failure {
		switch ts.Kind {
		case core.KStruct:
			if v.T == core.WStruct && len(v.Fields) > 0 {
				return requiredPresent(ts.SS(), v, p)
			}
		case core.KList, core.KSet:
			for i := range v.Elems {
				if f := val(ts.Elem, &v.Elems[i], p+"[]"); f != nil {
					return f
				}
			}
		case core.KMap:
			for i := range v.Keys {
				if f := val(ts.Key, &v.Keys[i], p+"{k}"); f != nil {
					return f
				}
				if f := val(ts.Elem, &v.Vals[i], p+"{v}"); f != nil {
					return f
				}
			}
		}
		return nil
	}
	for i := range n.Fields {
		f := s.ByID(n.Fields[i].ID)
		if f != nil && f.Type.WT() == n.Fields[i].T {
			if fl := val(f.Type, &n.Fields[i].V, path+"."+f.Name); fl != nil {
				return fl
			}
		}
	}
	return nil
}

func runC09(w *worker) func(c c09Case) *Failure {
	return func(c c09Case) *Failure {
		b := core.Bind(c.S)
		// encoder half
		src := b.NewValue(c.V)
		out, f := encodeExact(src.Interface())
		if f != nil {
			return f
		}
		tree, _, err := core.ParseStruct(out, 1<<20)
		if err != nil {
			return failf("output-malformed", "strict parser rejects EncodeObject output: %v; %s", err, hexs(out))
		}
		if f := requiredPresent(c.S, &tree, "$"); f != nil {
			return f
		}
		// history: earlier decodes using the same presence bits
		for _, pm := range c.Pre {
			d := newDest(b)
			if _, _, f := fDecode(append([]byte{}, pm...), d.Interface()); f != nil {
				return f
			}
		}
		if c.PreOther != nil {
			if _, f := checkDecodeAgainstModel(*c.PreOther); f != nil {
				return f
			}
		}
		// decoder half
		verdict, f := checkDecodeAgainstModel(decCase{S: c.S, Msg: c.Msg})
		if f != nil {
			return f
		}
		boundary, nested, big := false, false, false
		c.S.WalkTypes(func(t *core.TypeSpec) {
			if t.Kind == core.KStruct {
				for _, f := range t.SS().Fields {
					if f.Req == core.Required {
						nested = true
					}
				}
			}
		})
		for _, f := range c.S.Fields {
			if f.Req == core.Required {
				if f.ID >= 64 {
					big = true
				}
				if m := f.ID % 64; m == 63 || m == 0 || m == 1 {
					boundary = true
				}
			}
		}
		labels := []string{"verdict:" + verdict.Kind.String()}
		if len(verdict.MissingRequired) > 0 {
			labels = append(labels, "missing-required")
		}
		if big {
			labels = append(labels, "required-id>=64")
		}
		if boundary {
			labels = append(labels, "required-id-at-word-boundary")
		}
		if nested {
			labels = append(labels, "required-in-nested-struct")
		}
		if len(c.Pre) > 0 || c.PreOther != nil {
			labels = append(labels, "preceded-by-decodes")
		}
		nontriv := (big || boundary || nested) && c.Dropped > 0
		if _, _, _, shape := typeShape(c.S); true {
			for _, l := range shape {
				if l == "required>64" || l == "fields>64" {
					labels = append(labels, l)
				}
			}
		}
		w.count(nontriv, c.S.Sig()+string(c.Msg), c, labels...)
		return nil
	}
}

func TestC09(t *testing.T) {
	w := newWorker(t, "C09")
	drive(t, caseRunner[c09Case]{w: w, gen: genC09, run: runC09(w), journalled: true})
}
