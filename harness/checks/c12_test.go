package checks

import (
	"bytes"
	"testing"

	"pgregory.net/rapid"

	"verif/harness/core"
)

// C12 — the wire schema is exactly what the struct tags say.

type c12Case struct {
	Specs []*core.StructSpec `json:"specs"` // the same schema in several spellings
	V     *core.SVal         `json:"v"`
	Msg   []byte             `json:"msg"`
	// Pre: definitions outside the supported language on which a call is made (and rejected) before
	// spelling PreAt[i] is first used: the schema of a type is what its own tags say, whatever the
	// tag parser was given just before
	Pre   []c13Case `json:"pre,omitempty"`
	PreAt []int     `json:"pre_at,omitempty"`
}

// respell clones the spec with new spellings, another declaration order and other
// ignored fields, at every nesting level.
func respell(t *rapid.T, s *core.StructSpec, withExtras bool) *core.StructSpec {
	o := cloneSpec(s)
	seen := map[*core.StructSpec]bool{}
	var ws func(s *core.StructSpec)
	var wt func(ts *core.TypeSpec)
	wt = func(ts *core.TypeSpec) {
		switch ts.Kind {
		case core.KList, core.KSet:
			wt(ts.Elem)
		case core.KMap:
			wt(ts.Key)
			wt(ts.Elem)
		case core.KStruct:
			if ts.Struct != nil {
				ws(ts.Struct)
			}
		}
	}
	ws = func(s *core.StructSpec) {
		if seen[s] {
			return
		}
		seen[s] = true
		for _, f := range s.Fields {
			f.Sp = core.GenSpelling(t)
			wt(f.Type)
		}
		if len(s.Fields) > 1 {
			s.Fields = rapid.Permutation(s.Fields).Draw(t, "order")
		}
		s.Extras = nil
		if withExtras && rapid.IntRange(0, 2).Draw(t, "extras") == 0 {
			emb := map[uint8]bool{}
			for i := 0; i < rapid.IntRange(1, 3).Draw(t, "nextras"); i++ {
				k := uint8(rapid.IntRange(0, 3).Draw(t, "xkind"))
				if k >= 2 {
					if emb[k] {
						continue
					}
					emb[k] = true
				}
				name := "X" + itoa(i)
				if k == 1 {
					name = "x" + itoa(i)
				}
				s.Extras = append(s.Extras, core.Extra{Pos: rapid.IntRange(0, len(s.Fields)).Draw(t, "xpos"), Kind: k, Name: name})
			}
		}
	}
	ws(o)
	return o
}

func genC12(t *rapid.T) c12Case {
	cfg := core.GenCfg{Holder: true, BigIDs: true, MaxAnn: 4, MaxBytes: 2048, ContainerMax: 6, MaxFields: 7, Twins: true}
	base := core.GenStruct(t, cfg)
	c := c12Case{}
	k := rapid.IntRange(3, 6).Draw(t, "nspellings")
	for i := 0; i < k; i++ {
		c.Specs = append(c.Specs, respell(t, base, i > 0))
	}
	c.V = core.GenStructVal(t, core.GenCfg{MaxBytes: 2048, ContainerMax: 6, HolderBytes: true}, base)
	v2 := core.GenStructVal(t, core.GenCfg{MaxBytes: 2048, ContainerMax: 6}, base)
	c.Msg, _ = genWireMsg(t, base, v2, wireEditCfg{Shuffle: true, Insert: true, Drop: true, MaxInsert: 2})
	if rapid.IntRange(0, 2).Draw(t, "pre") == 0 {
		for i := rapid.IntRange(1, 3).Draw(t, "npre"); i > 0; i-- {
			ic := c13Case{Salt: rapid.IntRange(0, 1<<20).Draw(t, "isalt"), Pos: rapid.IntRange(0, 2).Draw(t, "ipos")}
			ic.Class = c13Classes[(rapid.IntRange(0, len(c13Classes)-1).Draw(t, "iclass")+ic.Salt)%len(c13Classes)].Name
			c.Pre = append(c.Pre, ic)
			c.PreAt = append(c.PreAt, rapid.IntRange(0, k-1).Draw(t, "preat"))
		}
	}
	return c
}

func spellingDims(a, b *core.StructSpec) int {
	d := map[string]bool{}
	for _, fa := range a.Fields {
		fb := b.ByID(fa.ID)
		if fb == nil {
			continue
		}
		if fa.Sp.Carrier != fb.Sp.Carrier {
			d["carrier"] = true
		}
		if fa.Sp.OmitReq != fb.Sp.OmitReq {
			d["omitreq"] = true
		}
		if fa.Sp.OmitAnn != fb.Sp.OmitAnn {
			d["omitann"] = true
		}
		if fa.Sp.ByteAlias != fb.Sp.ByteAlias {
			d["byte"] = true
		}
		if fa.Sp.PkgQual != fb.Sp.PkgQual {
			d["pkg"] = true
		}
		if fa.Sp.Spaces != fb.Sp.Spaces {
			d["spaces"] = true
		}
		if fa.Sp.Other != fb.Sp.Other {
			d["othertags"] = true
		}
	}
	if len(a.Extras) != len(b.Extras) {
		d["extras"] = true
	}
	return len(d)
}

func runC12(w *worker) func(c c12Case) *Failure {
	return func(c c12Case) *Failure {
		base := c.Specs[0]
		var firstOut []byte
		var firstDec *core.SVal
		var firstErr bool
		for i, s := range c.Specs {
			b := core.Bind(s)
			if err := b.CheckTags(); err != nil {
				return failf("harness-tag-rendering", "spelling %d: %v", i, err)
			}
			// encode: equal to the reference encoding of the AST the tags were rendered from
			src := b.NewValue(c.V)
			out, f := encodeExact(src.Interface())
			if f != nil {
				f.Msg = "spelling " + itoa(i) + ": " + f.Msg
				return f
			}
			ok, want, perr := matchesRef(out, base, c.V)
			if perr != nil {
				return failf("output-malformed", "spelling %d: output does not parse: %v; %s", i, perr, hexs(out))
			}
			if !ok {
				return failf("schema-differs", "spelling %d (%s): output differs from the schema written in the tags\n got: %s\nwant: %s", i, b.Type, hexs(out), hexs(want))
			}
			if err := b.CheckExtras(src.Elem()); err != nil {
				return failf("ignored-field-touched", "spelling %d encode: %v", i, err)
			}
			co, _ := core.Canon(out)
			if i == 0 {
				firstOut = co
			} else if !bytes.Equal(co, firstOut) && !core.AmbiguousOmit(base, c.V) {
				return failf("spellings-disagree", "spelling %d encodes differently from spelling 0", i)
			}
			// decode: against the model and across spellings (ignored fields untouched)
			verdict, f := checkDecodeAgainstModel(decCase{S: s, Msg: c.Msg})
			if f != nil {
				f.Msg = "spelling " + itoa(i) + ": " + f.Msg
				return f
			}
			dest := newDest(b)
			_, err, _ := fDecode(append([]byte{}, c.Msg...), dest.Interface())
			if i == 0 {
				firstErr = err != nil
				if err == nil {
					firstDec = b.Lift(dest.Elem())
				}
			} else {
				if (err != nil) != firstErr {
					return failf("spellings-disagree", "spelling %d decode error=%v, spelling 0 error=%v", i, err, firstErr)
				}
				if err == nil && !verdict.GrayValue {
					if m := core.EqualStruct(base, b.Lift(dest.Elem()), firstDec, core.EqOpts{}, "$"); m != nil {
						return failf("spellings-disagree", "spelling %d decodes differently from spelling 0: %s", i, m)
					}
				}
			}
		}
		dims := 0
		for i := 1; i < len(c.Specs); i++ {
			if d := spellingDims(c.Specs[0], c.Specs[i]); d > dims {
				dims = d
			}
		}
		nested := false
		base.WalkTypes(func(t *core.TypeSpec) {
			switch t.Kind {
			case core.KList, core.KSet, core.KMap:
				if t.Elem.Kind == core.KList || t.Elem.Kind == core.KSet || t.Elem.Kind == core.KMap {
					nested = true
				}
			case core.KEnum:
				nested = true
			}
		})
		_, _, _, labels := typeShape(base)
		if len(c.Pre) > 0 {
			labels = append(labels, "after-rejected-definition")
		}
		w.count(dims >= 2 && nested, base.Sig()+string(firstOut), c, labels...)
		return nil
	}
}

func TestC12(t *testing.T) {
	w := newWorker(t, "C12")
	drive(t, caseRunner[c12Case]{w: w, gen: genC12, run: runC12(w), journalled: true})
}
