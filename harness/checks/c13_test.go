package checks

import (
	"fmt"
	"reflect"
	"runtime"
	"strings"
	"testing"
	"unsafe"

	"pgregory.net/rapid"

	"verif/harness/core"
)

// C13 — unsupported definitions and arguments are rejected cleanly and consistently.

type invField struct {
	T   reflect.Type
	Tag string
}

type invClass struct {
	Name   string
	Fields func() []invField // the offending field(s)
}

var (
	tI32   = reflect.TypeOf(int32(0))
	tI64   = reflect.TypeOf(int64(0))
	tStr   = reflect.TypeOf("")
	tBytes = reflect.TypeOf([]byte(nil))
)

type plainS struct {
	A int32 `frugal:"1,default,i32"`
}

// recursive container types: Thrift cannot express them (no struct breaks the cycle)
type (
	recMap     map[string]recMap
	recPtrMap  map[string]*recPtrMapS
	recPtrMapS struct {
		M recPtrMap `frugal:"1,default"`
	}
	recKeyless map[int32]map[string]recKeyless
)

func one(t reflect.Type, tag string) func() []invField {
	return func() []invField { return []invField{{t, tag}} }
}

// invalidClasses enumerates the definitions outside the supported language.
func invalidClasses() []invClass {
	var cs []invClass
	add := func(name string, t reflect.Type, tag string) {
		cs = append(cs, invClass{Name: name, Fields: one(t, `frugal:"`+tag+`"`)})
	}
	// Go kinds Thrift cannot express
	for _, k := range []struct {
		n string
		t reflect.Type
		a string
	}{
		{"uint", reflect.TypeOf(uint(0)), "i64"}, {"uint8", reflect.TypeOf(uint8(0)), "i8"}, {"uint16", reflect.TypeOf(uint16(0)), "i16"},
		{"uint32", reflect.TypeOf(uint32(0)), "i32"}, {"uint64", reflect.TypeOf(uint64(0)), "i64"}, {"float32", reflect.TypeOf(float32(0)), "double"},
		{"array", reflect.TypeOf([3]int32{}), "list<i32>"}, {"chan", reflect.TypeOf(make(chan int32)), "i32"}, {"func", reflect.TypeOf(func() {}), "i32"},
		{"interface", reflect.TypeOf((*interface{})(nil)).Elem(), "string"}, {"complex128", reflect.TypeOf(complex128(0)), "double"},
		{"uintptr", reflect.TypeOf(uintptr(0)), "i64"}, {"unsafe.Pointer", reflect.TypeOf(unsafe.Pointer(nil)), "i64"},
	} {
		add("kind:"+k.n, k.t, "1,default,"+k.a)
		add("kind:"+k.n+"-noann", k.t, "1,default")
	}
	add("kind:list-of-uint32", reflect.TypeOf([]uint32(nil)), "1,default,list<i32>")
	add("kind:map-value-float32", reflect.TypeOf(map[string]float32(nil)), "1,default,map<string:double>")
	add("kind:map-key-uint16", reflect.TypeOf(map[uint16]string(nil)), "1,default,map<i16:string>")
	// slice without a list/set annotation
	add("slice-no-annotation", reflect.TypeOf([]int32(nil)), "1,default")
	add("slice-no-annotation-idonly", reflect.TypeOf([]string(nil)), "1")
	add("slice-no-annotation-in-map", reflect.TypeOf(map[string][]int32(nil)), "1,default")
	// annotation contradicting the Go type
	add("contradict:i32-as-i64", tI32, "1,default,i64")
	add("contradict:string-as-i32", tStr, "1,default,i32")
	add("contradict:string-as-binary", tStr, "1,default,binary")
	add("contradict:binary-as-string", tBytes, "1,default,string")
	add("contradict:slice-as-map", reflect.TypeOf([]int32(nil)), "1,default,map<i32:i32>")
	add("contradict:map-as-list", reflect.TypeOf(map[string]int32(nil)), "1,default,list<i32>")
	add("contradict:list-elem", reflect.TypeOf([]int32(nil)), "1,default,list<i64>")
	add("contradict:map-key", reflect.TypeOf(map[int32]string(nil)), "1,default,map<string:string>")
	add("contradict:map-value", reflect.TypeOf(map[int32]string(nil)), "1,default,map<i32:i64>")
	add("contradict:struct-name", reflect.TypeOf(&plainS{}), "1,default,OtherName")
	add("contradict:struct-as-i32", reflect.TypeOf(&plainS{}), "1,default,i32")
	add("contradict:i64-as-struct-name", tI64, "1,default,SomeStruct")
	add("contradict:bool-as-byte", reflect.TypeOf(false), "1,default,byte")
	add("contradict:nested-set-elem", reflect.TypeOf(map[string][]int16(nil)), "1,default,map<string:set<i32>>")
	// syntactically broken annotations
	for i, a := range []string{"list<i32", "list<i32>>", "list i32>", "list<>", "list<i32>x", "lis<i32>", "<i32>", "list<i32> >", "set<<i32>>", "list<i32 i32>"} {
		add(fmt.Sprintf("syntax:list#%d", i), reflect.TypeOf([]int32(nil)), "1,default,"+a)
	}
	for i, a := range []string{"map<string i32>", "map<string:i32", "map<string:i32>>", "map<:i32>", "map<string:>", "map string:i32>", "map<string:i32:i32>", "map<string:i32> i32", "map<string;i32>"} {
		add(fmt.Sprintf("syntax:map#%d", i), reflect.TypeOf(map[string]int32(nil)), "1,default,"+a)
	}
	for i, a := range []string{"i32 i32", "i32>", "i32<", "i", "3", "32", "i3", "$i32", "i32$", "I32", "Int32"} {
		add(fmt.Sprintf("syntax:i32#%d", i), tI32, "1,default,"+a)
	}
	for i, a := range []string{"str", "tring", "string string", "String", "s"} {
		add(fmt.Sprintf("syntax:string#%d", i), tStr, "1,default,"+a)
	}
	for i, a := range []string{"bin", "binary>", "binary binary"} {
		add(fmt.Sprintf("syntax:binary#%d", i), tBytes, "1,default,"+a)
	}
	for i, a := range []string{"bool bool", "boo", "o"} {
		add(fmt.Sprintf("syntax:bool#%d", i), reflect.TypeOf(false), "1,default,"+a)
	}
	for i, a := range []string{"byte i8", "i8 byte", "8", "by", "8 b"} {
		add(fmt.Sprintf("syntax:i8#%d", i), reflect.TypeOf(int8(0)), "1,default,"+a)
	}
	for i, a := range []string{"doubl", "double double", "d"} {
		add(fmt.Sprintf("syntax:double#%d", i), reflect.TypeOf(float64(0)), "1,default,"+a)
	}
	add("syntax:struct-trailing", reflect.TypeOf(&plainS{}), "1,default,plainS plainS")
	add("syntax:struct-bad-qualifier", reflect.TypeOf(&plainS{}), "1,default,pkg..plainS")
	add("syntax:struct-qualifier-number", reflect.TypeOf(&plainS{}), "1,default,pkg.1")
	// recursive container types, annotation omitted (legal for maps): infinitely nested map<..map<..>>
	add("recursive:map-noann", reflect.TypeOf(recMap(nil)), "1,default")
	add("recursive:map-idonly", reflect.TypeOf(recMap(nil)), "1")
	cs = append(cs, invClass{Name: "recursive:map-thrift-tag", Fields: one(reflect.TypeOf(recMap(nil)), `thrift:"T,1,optional"`)})
	add("recursive:map-of-map-noann", reflect.TypeOf(recKeyless(nil)), "1,default")
	// the recursive named type one step below an unnamed type written at the field itself
	add("recursive:map-in-unnamed-map-noann", reflect.TypeOf(map[int32]recMap(nil)), "1,default")
	add("recursive:map-in-unnamed-map-of-map-noann", reflect.TypeOf(map[string]map[int64]recMap(nil)), "1")
	add("recursive:map-behind-pointer-noann", reflect.TypeOf((*recMap)(nil)), "1,optional")
	add("recursive:map-as-unnamed-map-key-value-noann", reflect.TypeOf(map[string]recKeyless(nil)), "1,default")
	// annotations contradicting an anonymous struct
	anon := reflect.TypeOf(struct {
		A int32 `frugal:"1,default,i32"`
	}{})
	add("contradict:anon-struct-as-i32", anon, "1,default,i32")
	add("contradict:anon-struct-as-string", reflect.PointerTo(anon), "1,optional,string")
	add("contradict:anon-struct-list-as-list-i32", reflect.SliceOf(anon), "1,default,list<i32>")
	add("contradict:anon-struct-map-value-as-binary", reflect.MapOf(tStr, reflect.PointerTo(anon)), "1,default,map<string:binary>")
	add("contradict:anon-struct-as-map", anon, "1,default,map")
	// invalid map keys
	add("mapkey:struct-by-value", reflect.TypeOf(map[plainS]int32(nil)), "1,default,map<plainS:i32>")
	add("mapkey:pointer-to-scalar", reflect.TypeOf(map[*int32]int32(nil)), "1,default,map<i32:i32>")
	add("mapkey:pointer-to-string", reflect.TypeOf(map[*string]int32(nil)), "1,default,map<string:i32>")
	add("mapkey:array", reflect.TypeOf(map[[2]int32]int32(nil)), "1,default,map<list<i32>:i32>")
	// non-struct pointers where only values are allowed
	add("ptr:list-elem-scalar", reflect.TypeOf([]*int32(nil)), "1,default,list<i32>")
	add("ptr:list-elem-string", reflect.TypeOf([]*string(nil)), "1,optional,list<string>")
	add("ptr:map-value-scalar", reflect.TypeOf(map[string]*int64(nil)), "1,default,map<string:i64>")
	add("ptr:default-field-scalar", reflect.TypeOf((*int32)(nil)), "1,default,i32")
	add("ptr:required-field-string", reflect.TypeOf((*string)(nil)), "1,required,string")
	add("ptr:idonly-field-scalar", reflect.TypeOf((*int64)(nil)), "1")
	// ... systematically: every base type x every non-optional requiredness, annotated or not
	for _, sc := range []struct {
		name string
		rt   reflect.Type
		ann  string
	}{{"bool", reflect.TypeOf(false), "bool"}, {"i8", reflect.TypeOf(int8(0)), "i8"}, {"byte", reflect.TypeOf(int8(0)), "byte"}, {"i16", reflect.TypeOf(int16(0)), "i16"},
		{"i32", tI32, "i32"}, {"i64", reflect.TypeOf(int64(0)), "i64"}, {"double", reflect.TypeOf(float64(0)), "double"}, {"string", tStr, "string"},
		{"binary", reflect.TypeOf([]byte(nil)), "binary"}, {"enum", reflect.TypeOf(core.E1(0)), "E1"}} {
		for _, req := range []string{"default", "required", ""} {
			for _, withAnn := range []bool{true, false} {
				tag := "1"
				if req != "" {
					tag += "," + req
				}
				if withAnn {
					if req == "" {
						continue
					}
					tag += "," + sc.ann
				}
				add(fmt.Sprintf("ptr:nonoptional:%s:%s:ann=%v", sc.name, req, withAnn), reflect.PointerTo(sc.rt), tag)
			}
		}
	}
	// pointers to pointers or to containers
	add("ptrptr:struct-field", reflect.TypeOf((**plainS)(nil)), "1,optional,plainS")
	add("ptrptr:struct-default", reflect.TypeOf((**plainS)(nil)), "1,default,plainS")
	add("ptrptr:scalar", reflect.TypeOf((**int32)(nil)), "1,optional,i32")
	add("ptrptr:scalar-noann", reflect.TypeOf((**int32)(nil)), "1,optional")
	add("ptrptr:string-noann", reflect.TypeOf((**string)(nil)), "1,optional")
	add("ptrptr:struct-noann", reflect.TypeOf((**plainS)(nil)), "1,optional")
	add("ptrptr:list-elem", reflect.TypeOf([]**plainS(nil)), "1,default,list<plainS>")
	add("ptrptr:map-value", reflect.TypeOf(map[string]**plainS(nil)), "1,default,map<string:plainS>")
	add("ptrcontainer:list", reflect.TypeOf((*[]int32)(nil)), "1,optional,list<i32>")
	add("ptrcontainer:set", reflect.TypeOf((*[]string)(nil)), "1,optional,set<string>")
	add("ptrcontainer:map", reflect.TypeOf((*map[string]int32)(nil)), "1,optional,map<string:i32>")
	add("ptrcontainer:list-elem-ptr-list", reflect.TypeOf([]*[]int32(nil)), "1,default,list<list<i32>>")
	add("ptrcontainer:map-noann", reflect.TypeOf((*map[string]int32)(nil)), "1,optional")
	// ids
	cs = append(cs, invClass{Name: "id:duplicate", Fields: func() []invField {
		return []invField{{tI32, `frugal:"7,default,i32"`}, {tStr, `frugal:"7,default,string"`}}
	}})
	cs = append(cs, invClass{Name: "id:duplicate-across-tags", Fields: func() []invField {
		return []invField{{tI32, `frugal:"7,default,i32"`}, {tStr, `thrift:"x,7"`}}
	}})
	for i, id := range []string{"x", "-1", "+1", "0x10", "", " ", "65536", "99999999999999999999", "1.0", "1e2", "１", "1 2"} {
		add(fmt.Sprintf("id:bad#%d", i), tI32, id+",default,i32")
	}
	cs = append(cs, invClass{Name: "id:empty-frugal-tag", Fields: one(tI32, `frugal:""`)})
	cs = append(cs, invClass{Name: "id:thrift-non-numeric", Fields: one(tI32, `thrift:"name,id,default"`)})
	// requiredness / options
	for i, r := range []string{"mandatory", "Required", "", "opt", "default required", "optional "} {
		if r == "optional " {
			continue // trimmed: valid
		}
		add(fmt.Sprintf("req:bad#%d", i), tI32, "1,"+r+",i32")
	}
	add("option:unknown", tStr, "1,default,string,zerocopy")
	add("option:unknown-after-nocopy", tStr, "1,default,string,nocopy,fast")
	add("option:empty", tStr, "1,default,string,")
	add("option:nocopy-on-i32", tI32, "1,default,i32,nocopy")
	add("option:nocopy-on-list", reflect.TypeOf([]string(nil)), "1,default,list<string>,nocopy")
	add("option:nocopy-on-struct", reflect.TypeOf(&plainS{}), "1,default,plainS,nocopy")
	add("option:nocopy-duplicated", tStr, "1,default,string,nocopy,nocopy")
	add("option:NoCopy-case", tStr, "1,default,string,NoCopy")
	return cs
}

var c13Classes = invalidClasses()

// wraps: how the invalid struct is nested inside enclosing (otherwise valid) types.
var c13Wraps = []string{"ptr", "byvalue", "list", "mapval", "mapkey", "listbyvalue", "mapvalbyvalue", "set", "listlist"}

type c13Op struct {
	Op      string `json:"op"`  // size, encode, decode, valid
	Level   int    `json:"lvl"` // 0 = the invalid struct itself, k = k-th enclosing type
	ByValue bool   `json:"bv,omitempty"`
	Repeat  int    `json:"rep,omitempty"`
}

type c13Case struct {
	Class string   `json:"class"`
	Pos   int      `json:"pos"` // position of the offending field among 0..2 valid siblings
	Wraps []string `json:"wraps"`
	Salt  int      `json:"salt"` // makes the types of this case distinct from those of other cases
	Ops   []c13Op  `json:"ops"`
	Arg   string   `json:"arg,omitempty"` // argument-kind cases
	// cluster cases: a history over a recursive cluster of named types one of which is invalid
	Cluster bool     `json:"cluster,omitempty"`
	COps    []c13COp `json:"cops,omitempty"`
}

// c13COp is one call on a member of a cluster: 0..4 = A,B,C,D,M (invalid), 5,6 = E,F (valid).
type c13COp struct {
	Op     string `json:"op"`
	Member int    `json:"m"`
	BV     bool   `json:"bv,omitempty"`
}

var c13NextCluster int // clusters are single-use per process: caches never forget a type

var c13Args = []string{"nil-interface", "int", "string", "map", "slice", "ptr-to-int", "ptr-to-slice", "ptr-to-ptr-struct", "ptr-to-ptr-struct-after-use", "ptr-to-ptr-ptr-struct-after-use", "ptr-to-ptr-named-after-use", "nil-struct-ptr-decode", "func", "chan", "ptr-to-map"}

func genC13(t *rapid.T) c13Case {
	c := c13Case{Salt: rapid.IntRange(0, 1<<30).Draw(t, "salt")}
	if rapid.IntRange(0, 9).Draw(t, "argcase") == 0 {
		c.Arg = rapid.SampledFrom(c13Args).Draw(t, "arg")
		return c
	}
	if rapid.IntRange(0, 19).Draw(t, "clustercase") == 0 {
		c.Cluster = true
		n := rapid.IntRange(3, 9).Draw(t, "ncops")
		for i := 0; i < n; i++ {
			c.COps = append(c.COps, c13COp{Op: rapid.SampledFrom([]string{"size", "encode", "decode"}).Draw(t, "cop"),
				Member: rapid.IntRange(0, 6).Draw(t, "member"), BV: rapid.Bool().Draw(t, "cbv")})
		}
		return c
	}
	// rapid favours small draws: spread the class index with the (wide) salt so that every class is visited
	c.Class = c13Classes[(rapid.IntRange(0, len(c13Classes)-1).Draw(t, "class")+c.Salt)%len(c13Classes)].Name
	c.Pos = rapid.IntRange(0, 2).Draw(t, "pos")
	nw := rapid.IntRange(0, 3).Draw(t, "nwraps")
	for i := 0; i < nw; i++ {
		c.Wraps = append(c.Wraps, rapid.SampledFrom(c13Wraps).Draw(t, "wrap"))
	}
	nops := rapid.IntRange(2, 8).Draw(t, "nops")
	for i := 0; i < nops; i++ {
		op := c13Op{Op: rapid.SampledFrom([]string{"size", "encode", "decode", "encode", "decode", "valid"}).Draw(t, "op"),
			Level: rapid.IntRange(0, nw).Draw(t, "lvl"), ByValue: rapid.Bool().Draw(t, "bv"), Repeat: rapid.IntRange(1, 3).Draw(t, "rep")}
		c.Ops = append(c.Ops, op)
	}
	return c
}

// sharedSpec: a valid struct nested both in the enclosing types of the invalid
// definition and in valid types.
func c13SharedSpec(salt int) *core.StructSpec {
	return &core.StructSpec{Fields: []*core.FieldSpec{
		{Name: fmt.Sprintf("Sh_%d", salt), ID: 1, Type: &core.TypeSpec{Kind: core.KI32}},
		{Name: "ShS", ID: 2, Req: core.Optional, Type: &core.TypeSpec{Kind: core.KString}, GoPtr: true},
		// un-annotated optional pointers: whatever the parser remembers about *int32 / *string / *struct
		// from valid types must not leak into its verdict on **int32 and friends
		{Name: "ShP", ID: 3, Req: core.Optional, Type: &core.TypeSpec{Kind: core.KI32}, GoPtr: true, Sp: core.Spelling{OmitAnn: true}},
		{Name: "ShQ", ID: 4, Req: core.Optional, Type: &core.TypeSpec{Kind: core.KString}, GoPtr: true, Sp: core.Spelling{OmitAnn: true}},
	}}
}

func c13ValidSpec(shared *core.StructSpec) *core.StructSpec {
	return &core.StructSpec{Fields: []*core.FieldSpec{
		{Name: "V1", ID: 1, Type: &core.TypeSpec{Kind: core.KStruct, Struct: shared, Ptr: true}},
		{Name: "V2", ID: 2, Type: &core.TypeSpec{Kind: core.KList, Elem: &core.TypeSpec{Kind: core.KStruct, Struct: shared, Ptr: true}}},
		{Name: "V3", ID: 3, Req: core.Required, Type: &core.TypeSpec{Kind: core.KI64}},
	}}
}

// buildInvalidChain builds the invalid struct (level 0) and its enclosing types.
func buildInvalidChain(c c13Case) ([]reflect.Type, error) {
	var cls *invClass
	for i := range c13Classes {
		if c13Classes[i].Name == c.Class {
			cls = &c13Classes[i]
		}
	}
	if cls == nil {
		return nil, fmt.Errorf("unknown class %q", c.Class)
	}
	shared := core.Bind(c13SharedSpec(c.Salt)).Type
	var sfs []reflect.StructField
	sib := func(i int) reflect.StructField {
		return reflect.StructField{Name: fmt.Sprintf("Sib%d_%d", i, c.Salt), Type: tI64, Tag: reflect.StructTag(fmt.Sprintf(`frugal:"%d,default,i64"`, 100+i))}
	}
	for i := 0; i < c.Pos; i++ {
		sfs = append(sfs, sib(i))
	}
	for i, f := range cls.Fields() {
		sfs = append(sfs, reflect.StructField{Name: fmt.Sprintf("Bad%d", i), Type: f.T, Tag: reflect.StructTag(f.Tag)})
	}
	for i := c.Pos; i < 2; i++ {
		sfs = append(sfs, sib(i))
	}
	var out []reflect.Type
	var cur reflect.Type
	func() {
		defer func() {
			if r := recover(); r != nil {
				cur = nil
			}
		}()
		cur = reflect.StructOf(sfs)
	}()
	if cur == nil {
		return nil, fmt.Errorf("reflect cannot build class %s", c.Class)
	}
	out = append(out, cur)
	for lvl, w := range c.Wraps {
		var ft reflect.Type
		var ann string
		switch w {
		case "ptr":
			ft, ann = reflect.PointerTo(cur), "Inner"
		case "byvalue":
			ft, ann = cur, "Inner"
		case "list":
			ft, ann = reflect.SliceOf(reflect.PointerTo(cur)), "list<Inner>"
		case "set":
			ft, ann = reflect.SliceOf(reflect.PointerTo(cur)), "set<Inner>"
		case "listbyvalue":
			ft, ann = reflect.SliceOf(cur), "list<Inner>"
		case "listlist":
			ft, ann = reflect.SliceOf(reflect.SliceOf(reflect.PointerTo(cur))), "list<list<Inner>>"
		case "mapval":
			ft, ann = reflect.MapOf(tStr, reflect.PointerTo(cur)), "map<string:Inner>"
		case "mapvalbyvalue":
			ft, ann = reflect.MapOf(tI32, cur), "map<i32:Inner>"
		case "mapkey":
			ft, ann = reflect.MapOf(reflect.PointerTo(cur), tI32), "map<Inner:i32>"
		}
		req := "default"
		if w == "ptr" && lvl%2 == 0 {
			req = "optional"
		}
		fields := []reflect.StructField{
			{Name: fmt.Sprintf("Sh%d_%d", lvl, c.Salt), Type: reflect.PointerTo(shared), Tag: `frugal:"1,optional,Shared"`},
			{Name: "In", Type: ft, Tag: reflect.StructTag(fmt.Sprintf(`frugal:"2,%s,%s"`, req, ann))},
			{Name: "Tail", Type: tStr, Tag: `frugal:"3,default,string"`},
		}
		cur = reflect.StructOf(fields)
		out = append(out, cur)
	}
	return out, nil
}

func isMemFault(r interface{}) bool {
	if re, ok := r.(runtime.Error); ok {
		m := re.Error()
		return strings.Contains(m, "nil pointer") || strings.Contains(m, "invalid memory") || strings.Contains(m, "fault")
	}
	return false
}

// expectRejected runs one entry point on a type that must be rejected.
func expectRejected(op string, rt reflect.Type, byValue bool) (string, *Failure) {
	p := reflect.New(rt)
	var arg interface{} = p.Interface()
	if byValue && op != "decode" {
		arg = p.Elem().Interface()
	}
	return expectRejectedArg(op, rt, arg)
}

// expectRejectedArg: as expectRejected, for a given argument of (a pointer to) type rt.
func expectRejectedArg(op string, rt reflect.Type, arg interface{}) (string, *Failure) {
	switch op {
	case "size":
		var pv interface{}
		func() {
			defer func() { pv = recover() }()
			frugalSize(arg)
		}()
		if pv == nil {
			return "", failf("invalid-accepted", "EncodedSize did not panic for %s", rt)
		}
		if isMemFault(pv) {
			return "", failf("rejection-is-memfault", "EncodedSize panicked with a runtime fault instead of an ordinary panic for %s: %v", rt, pv)
		}
		return fmt.Sprint(pv), nil
	case "encode":
		a := newArena(64, 16)
		buf := a.buf()
		before := append([]byte{}, buf...)
		n, err, f := fEncode(buf, arg)
		if f != nil {
			f.Msg = fmt.Sprintf("type %s: %s", rt, f.Msg)
			return "", f
		}
		if err == nil {
			return "", failf("invalid-accepted", "EncodeObject returned n=%d, err=nil for %s", n, rt)
		}
		if n != 0 {
			return "", failf("rejection-n", "EncodeObject returned n=%d with error %v", n, err)
		}
		if string(before) != string(buf) {
			return "", failf("rejection-wrote-bytes", "EncodeObject wrote into the buffer before rejecting %s", rt)
		}
		if _, ok := a.outsideIntact(64); !ok {
			return "", failf("wrote-past-buffer", "EncodeObject wrote outside the buffer while rejecting %s", rt)
		}
		return err.Error(), nil
	case "decode":
		p := reflect.ValueOf(arg)
		if p.Kind() != reflect.Ptr || p.IsNil() {
			// no destination memory to watch (typed nil pointer): only the rejection itself
			n, err, f := fDecode([]byte{8, 0, 1, 0, 0, 0, 2, 0}, arg)
			if f != nil {
				f.Msg = fmt.Sprintf("type %s: %s", rt, f.Msg)
				return "", f
			}
			if err == nil || n != 0 {
				return "", failf("invalid-accepted", "DecodeObject returned n=%d, err=%v for a nil pointer to %s", n, err, rt)
			}
			return err.Error(), nil
		}
		snap := append([]byte{}, unsafe.Slice((*byte)(p.UnsafePointer()), int(rt.Size()))...)
		msg := []byte{8, 0, 100, 0, 0, 0, 1, 8, 0, 1, 0, 0, 0, 2, 11, 0, 3, 0, 0, 0, 1, 'x', 0}
		n, err, f := fDecode(msg, arg)
		if f != nil {
			f.Msg = fmt.Sprintf("type %s: %s", rt, f.Msg)
			return "", f
		}
		if err == nil {
			return "", failf("invalid-accepted", "DecodeObject returned n=%d, err=nil for %s", n, rt)
		}
		if n != 0 {
			return "", failf("rejection-n", "DecodeObject returned n=%d with error %v", n, err)
		}
		if rt.Size() > 0 && string(snap) != string(unsafe.Slice((*byte)(p.UnsafePointer()), int(rt.Size()))) {
			return "", failf("rejection-stored-bytes", "DecodeObject modified the destination before rejecting %s", rt)
		}
		return err.Error(), nil
	}
	return "", nil
}

func frugalSize(v interface{}) int {
	n, f := fSizeRaw(v)
	_ = f
	return n
}

func runC13Arg(w *worker, c c13Case) *Failure {
	type S = plainS
	var arg interface{}
	decodeOnly := false
	switch c.Arg {
	case "nil-interface":
		arg = nil
	case "int":
		arg = 42
	case "string":
		arg = "x"
	case "map":
		arg = map[string]int32{"a": 1}
	case "slice":
		arg = []int32{1}
	case "ptr-to-int":
		x := int32(1)
		arg = &x
	case "ptr-to-slice":
		x := []int32{1}
		arg = &x
	case "ptr-to-map":
		x := map[string]int32{}
		arg = &x
	case "ptr-to-ptr-struct":
		x := &S{}
		arg = &x
	case "ptr-to-ptr-struct-after-use", "ptr-to-ptr-ptr-struct-after-use":
		// the struct type itself is fine and has been used, by pointer and by value: one more level of
		// indirection is still not "a (pointer to a) struct"
		if _, f := encodeExact(&S{}); f != nil {
			return f
		}
		if _, f := encodeExact(S{}); f != nil {
			return f
		}
		if _, err, f := fDecode([]byte{0}, &S{}); f != nil || err != nil {
			return failf("valid-rejected", "decoding into a valid type failed: %v %v", err, f)
		}
		x := &S{}
		arg = &x
		if c.Arg == "ptr-to-ptr-ptr-struct-after-use" {
			y := &x
			arg = &y
		}
	case "ptr-to-ptr-named-after-use":
		b := core.Bind(core.LookupSpec("MutA"))
		p := b.New()
		if _, f := encodeExact(p.Interface()); f != nil {
			return f
		}
		pp := reflect.New(p.Type())
		pp.Elem().Set(p)
		arg = pp.Interface()
	case "func":
		arg = func() {}
	case "chan":
		arg = make(chan int)
	case "nil-struct-ptr-decode":
		arg = (*S)(nil)
		decodeOnly = true
	}
	for rep := 0; rep < 3; rep++ {
		if !decodeOnly {
			var pv interface{}
			func() {
				defer func() { pv = recover() }()
				frugalSize(arg)
			}()
			if pv == nil {
				return failf("invalid-accepted", "EncodedSize(%s) did not panic", c.Arg)
			}
			if isMemFault(pv) {
				return failf("rejection-is-memfault", "EncodedSize(%s) panicked with a runtime fault: %v", c.Arg, pv)
			}
			a := newArena(32, 8)
			n, err, f := fEncode(a.buf(), arg)
			if f != nil {
				f.Msg = "argument " + c.Arg + ": " + f.Msg
				return f
			}
			if err == nil || n != 0 {
				return failf("invalid-accepted", "EncodeObject(%s) returned n=%d err=%v", c.Arg, n, err)
			}
			if _, ok := a.outsideIntact(0); !ok {
				return failf("rejection-wrote-bytes", "EncodeObject(%s) wrote bytes", c.Arg)
			}
		}
		n, err, f := fDecode([]byte{0}, arg)
		if f != nil {
			f.Msg = "argument " + c.Arg + ": " + f.Msg
			return f
		}
		if err == nil || n != 0 {
			return failf("invalid-accepted", "DecodeObject(%s) returned n=%d err=%v", c.Arg, n, err)
		}
	}
	w.count(true, "arg:"+c.Arg, c, "arg:"+c.Arg)
	return nil
}

func runC13(w *worker) func(c c13Case) *Failure {
	return func(c c13Case) *Failure {
		if c.Arg != "" {
			return runC13Arg(w, c)
		}
		if c.Cluster {
			return runC13Cluster(w, c)
		}
		chain, err := buildInvalidChain(c)
		if err != nil {
			w.label("unbuildable:" + c.Class)
			return nil
		}
		shared := c13SharedSpec(c.Salt)
		valid := c13ValidSpec(shared)
		msgs := map[string]string{}
		c01 := runC01(&worker{hashes: map[uint64]struct{}{}, classes: map[string]int{}, excl: map[string]int{}})
		for i, op := range c.Ops {
			if op.Op == "valid" {
				// a valid type sharing a nested type with the enclosing types keeps working
				sv := core.ZeroStruct(valid)
				sv.F[1] = core.Val{St: &core.SVal{F: map[uint16]core.Val{1: {I: int64(i)}, 2: {S: []byte("s")}}}}
				sv.F[2] = core.Val{L: []core.Val{{St: &core.SVal{F: map[uint16]core.Val{1: {I: 7}, 2: {Nil: true}}}}}}
				sv.F[3] = core.Val{I: int64(c.Salt)}
				if f := c01(TV{S: valid, V: sv}); f != nil {
					f.Msg = fmt.Sprintf("op %d (valid type sharing a nested type): %s", i, f.Msg)
					return f
				}
				continue
			}
			lvl := op.Level
			if lvl >= len(chain) {
				lvl = len(chain) - 1
			}
			rt := chain[lvl]
			for rep := 0; rep < max(1, op.Repeat); rep++ {
				msg, f := expectRejected(op.Op, rt, op.ByValue)
				if f != nil {
					f.Msg = fmt.Sprintf("op %d (%s, level %d of %v, repetition %d): %s", i, op.Op, lvl, c.Wraps, rep, f.Msg)
					return f
				}
				key := fmt.Sprintf("%s/%d", op.Op, lvl)
				if op.Op == "size" {
					continue // panic text may embed addresses
				}
				if prev, ok := msgs[key]; ok && prev != msg {
					return failf("rejection-inconsistent", "op %d: %s on level %d gave %q, earlier %q", i, op.Op, lvl, msg, prev)
				}
				msgs[key] = msg
			}
			// a typed nil pointer is an argument of the same unsupported type: rejected like any other
			if _, f := expectRejectedArg(op.Op, rt, reflect.Zero(reflect.PointerTo(rt)).Interface()); f != nil {
				f.Msg = fmt.Sprintf("op %d (%s with a typed nil pointer, level %d of %v): %s", i, op.Op, lvl, c.Wraps, f.Msg)
				return f
			}
		}
		deep := len(c.Wraps) >= 1
		w.count(deep, fmt.Sprintf("%s|%d|%v|%v", c.Class, c.Pos, c.Wraps, c.Ops), c, "class:"+strings.SplitN(c.Class, "#", 2)[0])
		return nil
	}
}

func TestC13(t *testing.T) {
	w := newWorker(t, "C13")
	drive(t, caseRunner[c13Case]{w: w, gen: genC13, run: runC13(w), journalled: true})
}

func runC13Cluster(w *worker, c c13Case) *Failure {
	if c13NextCluster >= len(invClusters) {
		w.label("cluster-pool-exhausted")
		return nil
	}
	k := c13NextCluster
	c13NextCluster++
	types := invClusters[k]
	first := ""
	for i, op := range c.COps {
		rt := types[op.Member]
		if i == 0 {
			first = []string{"A", "B", "C", "D", "M", "E", "F"}[op.Member]
		}
		if op.Member >= 5 {
			// valid members keep working: E{V}, F{E,L}
			p := reflect.New(rt)
			if op.Member == 5 {
				p.Elem().Field(0).SetInt(int64(i + 1))
			}
			out, f := encodeExact(p.Interface())
			if f != nil {
				f.Msg = fmt.Sprintf("cluster %d op %d on valid member: %s", k, i, f.Msg)
				return f
			}
			d := reflect.New(rt)
			if n, err, f := fDecode(out, d.Interface()); f != nil || err != nil || n != len(out) {
				return failf("valid-type-affected", "cluster %d op %d: valid member stopped working: n=%d err=%v %v", k, i, n, err, f)
			}
			if !reflect.DeepEqual(p.Interface(), d.Interface()) && op.Member == 5 {
				return failf("valid-type-affected", "cluster %d op %d: valid member round trip differs", k, i)
			}
			continue
		}
		if _, f := expectRejected(op.Op, rt, op.BV); f != nil {
			f.Msg = fmt.Sprintf("cluster %d (variant %d), op %d of %v: %s", k, k%6, i, c.COps, f.Msg)
			return f
		}
	}
	w.count(len(c.COps) >= 3, fmt.Sprintf("cluster|%d|%v", k%6, c.COps), c, "cluster:first-use-"+first, fmt.Sprintf("cluster:variant-%d", k%6))
	return nil
}
