package checks

// Self-checks of the reference model, without frugal: a broken oracle must not be
// allowed to report anything (the driver runs this first and exits 2 on failure).

import (
	"bytes"
	"testing"

	"pgregory.net/rapid"

	"verif/harness/core"
)

func TestModelSelf(t *testing.T) {
	cfg := core.GenCfg{Holder: true, BigIDs: false, NamedRefs: namedRefs(), MaxBytes: 4096}
	rapid.Check(t, func(rt *rapid.T) {
		c := genTV(cfg)(rt)
		enc := core.RefEncode(c.S, c.V)
		// (1) strict parser accepts the reference encoding and consumes it exactly
		tree, used, err := core.ParseStruct(enc, 1<<20)
		if err != nil || used != len(enc) {
			rt.Fatalf("Parse rejects RefEncode output: err=%v used=%d len=%d", err, used, len(enc))
		}
		// (2) emit is the inverse of parse
		if re := tree.Emit(nil, false); !bytes.Equal(re, enc) {
			rt.Fatalf("Emit(Parse(x)) != x")
		}
		// (3) apache reads the same tree
		at, aused, err := apacheRead(enc)
		if err != nil || aused != len(enc) {
			rt.Fatalf("apache rejects RefEncode output: %v (used %d of %d)", err, aused, len(enc))
		}
		if !bytes.Equal(at.Emit(nil, false), enc) {
			rt.Fatalf("apache read a different tree")
		}
		// (4) apache writes the same bytes for that tree
		aw, err := apacheWrite(&tree)
		if err != nil || !bytes.Equal(aw, enc) {
			rt.Fatalf("apache writer differs from RefEncode: %v\n%x\n%x", err, aw, enc)
		}
		// (5) RefDecode(RefEncode(v)) re-encodes to the same bytes (round trip inside the model)
		dst := core.FreshStruct(c.S)
		vd := core.RefDecode(c.S, enc, dst)
		switch vd.Kind {
		case core.VOK:
			if vd.N != len(enc) {
				rt.Fatalf("RefDecode consumed %d of %d", vd.N, len(enc))
			}
			if core.AmbiguousOmit(c.S, c.V) {
				return
			}
			// nil non-optional structs/containers normalise to empty on the first trip; from
			// then on encode/decode must be a fixed point
			re := core.RefEncode(c.S, dst)
			dst2 := core.FreshStruct(c.S)
			if v2 := core.RefDecode(c.S, re, dst2); v2.Kind != core.VOK {
				if len(v2.MissingRequired) == 0 {
					rt.Fatalf("second trip rejected: %s", v2.Why)
				}
				return
			}
			// one more trip: a zero by-value struct under a decoder-created parent only receives its
			// declared defaults when it is itself decoded, so the fixed point is reached after trip two
			re2 := core.RefEncode(c.S, dst2)
			dst3 := core.FreshStruct(c.S)
			if v3 := core.RefDecode(c.S, re2, dst3); v3.Kind != core.VOK {
				if len(v3.MissingRequired) == 0 {
					rt.Fatalf("third trip rejected: %s", v3.Why)
				}
				return
			}
			if m := core.EqualStruct(c.S, dst2, dst3, core.EqOpts{NilEmptySame: true}, "$"); m != nil {
				rt.Fatalf("model round trip is not a fixed point: %s", m)
			}
			ca, _ := core.Canon(core.RefEncode(c.S, dst3))
			cb, _ := core.Canon(re2)
			if !bytes.Equal(ca, cb) {
				rt.Fatalf("model round trip changes the encoding:\n%x\n%x", re2, ca)
			}
		case core.VErr:
			if len(vd.MissingRequired) == 0 {
				rt.Fatalf("RefDecode rejects RefEncode output: %s", vd.Why)
			}
		}
	})
}
