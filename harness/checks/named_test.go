package checks

// Registration of named (generated-source) struct types; the declarations live in
// zz_named_test.go, which the driver replaces per seed through `go test -overlay`.

import (
	"encoding/json"
	"reflect"
	"sort"

	"verif/harness/core"
)

var namedAll []string

func registerNamed(specJSON string, t reflect.Type) {
	s := &core.StructSpec{}
	if err := json.Unmarshal([]byte(specJSON), s); err != nil {
		panic(err)
	}
	core.RegisterStructType(s, t)
	namedAll = append(namedAll, s.Name)
}

// namedRefs lists every registered named type (sorted).
func namedRefs() []string {
	out := append([]string(nil), namedAll...)
	sort.Strings(out)
	return out
}
