package checks

import (
	"bytes"
	"sort"
	"testing"

	"pgregory.net/rapid"

	"verif/harness/core"
)

// C04 — EncodedSize is exact; EncodeObject honours the buffer contract.

type c04Case struct {
	TV
	Cell    string `json:"cell,omitempty"`
	LenSeed []int  `json:"lens"`  // drawn offsets used to pick sampled buffer lengths
	Spare   int    `json:"spare"` // spare capacity behind len(buf)
}

func c04Cfg() core.GenCfg {
	c := c01Cfg()
	c.HolderBytes = true
	c.MaxBytes = 2048
	c.WideEnums = true
	return c
}

func genC04(t *rapid.T) c04Case {
	var c c04Case
	if rapid.IntRange(0, 2).Draw(t, "table") == 0 {
		c.TV, c.Cell = genTableTV(t)
	} else {
		c.TV = genTV(c04Cfg())(t)
	}
	c.LenSeed = rapid.SliceOfN(rapid.IntRange(0, 1<<20), 6, 6).Draw(t, "lens")
	c.Spare = rapid.SampledFrom([]int{0, 0, 1, 7, 64, 4096}).Draw(t, "spare")
	return c
}

const guardLen = 64

// arena carves buf (length l, capacity l+spare) out of a guarded block.
type arena struct {
	all   []byte
	l, sp int
}

func newArena(l, spare int) *arena {
	a := &arena{all: make([]byte, guardLen+l+spare+guardLen), l: l, sp: spare}
	for i := range a.all {
		a.all[i] = 0xA5 ^ byte(i*31)
	}
	return a
}

func (a *arena) buf() []byte { return a.all[guardLen : guardLen+a.l : guardLen+a.l+a.sp] }

// outsideIntact checks every byte outside buf[:keep] still has the fill pattern.
func (a *arena) outsideIntact(keep int) (int, bool) {
	for i := range a.all {
		if i >= guardLen && i < guardLen+keep {
			continue
		}
		if a.all[i] != 0xA5^byte(i*31) {
			return i - guardLen, false
		}
	}
	return 0, true
}

func sizeBranches(s *core.StructSpec, v *core.SVal) []string {
	seen := map[string]bool{}
	s.WalkTypes(func(t *core.TypeSpec) {
		switch t.Kind {
		case core.KStruct:
			if !t.Ptr {
				seen["size:by-value-struct"] = true
			}
		case core.KList, core.KSet:
			if t.Elem.IsScalar() {
				seen["size:count*width-list"] = true
			} else {
				seen["size:walk-list"] = true
			}
		case core.KMap:
			if t.Key.IsScalar() && t.Elem.IsScalar() {
				seen["size:count*width-map"] = true
			} else {
				seen["size:walk-map"] = true
			}
		}
	})
	for _, f := range s.Fields {
		if f.Req == core.Optional && !f.GoPtr && s.HasInit {
			seen["size:optional-with-default"] = true
		}
		if f.GoPtr && f.Type.Kind == core.KString {
			seen["size:pointer-string"] = true
		}
	}
	if len(v.Unk) > 0 {
		seen["size:holder-bytes"] = true
	}
	var out []string
	for k := range seen {
		out = append(out, k)
	}
	sort.Strings(out)
	return out
}

func runC04(w *worker) func(c c04Case) *Failure {
	return func(c c04Case) *Failure {
		b := core.Bind(c.S)
		src := b.NewValue(c.V)
		pv := src.Interface()
		sv := src.Elem().Interface()
		alts := core.RefEncodeAll(c.S, c.V, 10)
		if alts == nil {
			w.label("too-many-ambiguous-omissions")
			return nil
		}
		okSize := map[int]bool{}
		var canon [][]byte
		for _, a := range alts {
			okSize[len(a)] = true
			ca, err := core.Canon(a)
			if err != nil {
				return failf("model-bug", "reference encoding does not parse: %v", err)
			}
			canon = append(canon, ca)
		}
		s1, f := fSize(pv)
		if f != nil {
			return f
		}
		s2, f := fSize(sv)
		if f != nil {
			return f
		}
		if s1 != s2 {
			return failf("size-ptr-vs-value", "EncodedSize(&v)=%d but EncodedSize(v)=%d", s1, s2)
		}
		if !okSize[s1] {
			return failf("size-wrong", "EncodedSize=%d, reference encoding has %d bytes", s1, len(alts[0]))
		}
		s := s1
		// buffer lengths: all when small, else a sample around the interesting points
		var lens []int
		if s <= 96 {
			for l := 0; l <= s+1; l++ {
				lens = append(lens, l)
			}
		} else {
			lens = []int{0, 1, s - 1, s, s + 1, s + 64, s / 2}
			for _, x := range c.LenSeed {
				lens = append(lens, x%(s+1))
			}
		}
		for i, l := range lens {
			a := newArena(l, c.Spare)
			buf := a.buf()
			arg := pv
			if i%2 == 1 {
				arg = sv
			}
			n, err, f := fEncode(buf, arg)
			if f != nil {
				f.Msg = "buffer length " + itoa(l) + " (size " + itoa(s) + "): " + f.Msg
				return f
			}
			if l >= s {
				if err != nil {
					return failf("buffer-sufficient-error", "buffer of %d >= size %d but EncodeObject failed: %v", l, s, err)
				}
				if n != s {
					return failf("size-mismatch", "EncodedSize=%d but EncodeObject wrote %d (buffer %d)", s, n, l)
				}
				got, err := core.Canon(buf[:n])
				if err != nil {
					return failf("output-malformed", "output does not parse: %v; %s", err, hexs(buf[:n]))
				}
				match := false
				for _, ca := range canon {
					if bytes.Equal(ca, got) {
						match = true
					}
				}
				if !match {
					return failf("encoding-differs", "output differs from the reference encoding\n got: %s\nwant: %s", hexs(buf[:n]), hexs(alts[0]))
				}
			} else {
				if err == nil {
					return failf("short-buffer-accepted", "buffer of %d < size %d but EncodeObject returned n=%d, err=nil", l, s, n)
				}
			}
			if off, ok := a.outsideIntact(l); !ok {
				return failf("wrote-past-buffer", "EncodeObject(len(buf)=%d, cap=%d, size %d) modified the byte at offset %d relative to buf[0] (err=%v)", l, l+c.Spare, s, off, err)
			}
		}
		labels := sizeBranches(c.S, c.V)
		if c.Cell != "" {
			labels = append(labels, c.Cell)
		}
		w.count(s >= 8 && len(labels) > 0, c.S.Sig()+string(alts[0]), c, labels...)
		return nil
	}
}

func itoa(i int) string {
	return string(appendInt(nil, i))
}

func appendInt(b []byte, i int) []byte {
	if i < 0 {
		b = append(b, '-')
		i = -i
	}
	if i >= 10 {
		b = appendInt(b, i/10)
	}
	return append(b, byte('0'+i%10))
}

func TestC04(t *testing.T) {
	w := newWorker(t, "C04")
	drive(t, caseRunner[c04Case]{w: w, gen: genC04, run: runC04(w), journalled: true})
}
