// typegen prints the Go source of the named-type universe for one seed: the curated
// types plus n random named (mutually referencing, possibly recursive) struct types.
package main

import (
	"flag"
	"fmt"
	"os"

	"pgregory.net/rapid"

	"verif/harness/core"
)

func main() {
	seed := flag.Int("seed", 1, "universe seed")
	n := flag.Int("n", 60, "number of random named types")
	out := flag.String("o", "", "output file (default stdout)")
	pkg := flag.String("pkg", "checks", "package name")
	flag.Parse()
	specs := core.CuratedSpecs()
	if *n > 0 {
		gen := rapid.Custom(func(t *rapid.T) []*core.StructSpec { return core.GenNamedUniverse(t, "N", *n) })
		specs = append(specs, gen.Example(*seed)...)
	}
	src := core.RenderGoSource(*pkg, specs, fmt.Sprintf("typegen -seed %d -n %d", *seed, *n))
	if *out == "" {
		fmt.Print(src)
		return
	}
	if err := os.WriteFile(*out, []byte(src), 0o644); err != nil {
		fmt.Fprintln(os.Stderr, err)
		os.Exit(1)
	}
}
