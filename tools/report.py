#!/usr/bin/env python3
"""Regenerates the generated part of DESIGN.md (between the GENERATED markers) from
known_findings.json, tools/mutants_results.jsonl and seeded/*/meta.json."""
import glob
import json
import os

VERIF = os.path.dirname(os.path.dirname(os.path.abspath(__file__)))


def findings_table():
    d = json.load(open(os.path.join(VERIF, "known_findings.json")))
    out = ["| id | properties | status | commit | what failed | regression cases |", "|---|---|---|---|---|---|"]
    for f in sorted(d["findings"], key=lambda f: int(f["id"][1:])):
        what = f["what"]
        for pre in ("fixed: ",):
            if what.startswith(pre):
                what = what[len(pre):]
        what = what.split(" ", 2)[2] if f["status"] == "fixed" and what.startswith("property=") else what
        out.append("| %s | %s | %s | %s | %s | %s |" % (f["id"], ", ".join(f["properties"]), f["status"], f.get("commit", "-"), what,
                                                     "<br>".join(f.get("cases", [])) or "- (history dependent)"))
    return "\n".join(out)


def mutants_table():
    p = os.path.join(VERIF, "tools", "mutants_results.jsonl")
    if not os.path.exists(p):
        return "(no sensitivity run recorded)"
    last = {}
    for l in open(p):
        try:
            r = json.loads(l)
        except Exception:
            continue
        last[r["mutant"]] = r
    out = ["| mutant (scratch tree only) | file | repository's own tests | caught by (quick tier) | missed by |", "|---|---|---|---|---|"]
    for name, r in last.items():
        st = r.get("status")
        if st == "CAUGHT-BY-EXISTING-TESTS" or "also caught by the repository" in (st or ""):
            base = "fail (already caught there)"
        elif st in ("DOES-NOT-BUILD", "PATCH-DOES-NOT-APPLY"):
            base = st.lower()
        else:
            base = "pass"
        caught = ", ".join(r.get("caught_by") or []) or ("- (must stay silent)" if st == "SILENT-AS-INTENDED" else "-")
        out.append("| %s | %s | %s | %s | %s |" % (name, r.get("file"), base, caught, ", ".join(r.get("missed_by") or []) or "-"))
    return "\n".join(out)


def seeded_table():
    out = ["| seeded change (sub-agent) | property | needs, to manifest | checks run (quick) -> caught? |", "|---|---|---|---|"]
    for mp in sorted(glob.glob(os.path.join(VERIF, "seeded", "*", "meta.json"))):
        m = json.load(open(mp))
        name = os.path.basename(os.path.dirname(mp))
        ch = "; ".join("%s: %s" % (k, "caught" if v.get("caught") else "MISSED") for k, v in (m.get("checks") or {}).items())
        need = (m.get("needs_to_manifest") or "").replace("\n", " ").replace("|", "/")
        if len(need) > 330:
            need = need[:330] + "..."
        out.append("| %s | %s | %s | %s |" % (name, m.get("property"), need, ch))
    return "\n".join(out)


def main():
    p = os.path.join(VERIF, "DESIGN.md")
    s = open(p).read()
    a, b = "<!-- GENERATED:BEGIN (tools/report.py) -->", "<!-- GENERATED:END -->"
    body = "\n### 10.1 Genuine defects found on the pinned tree\n\n" + findings_table() + \
           "\n\n### 10.2 Sensitivity: one-token mutants (tools/mutants.py)\n\n" + mutants_table() + \
           "\n\n### 10.3 Sensitivity: changes seeded by independent sub-agents (seeded/*/)\n\n" + seeded_table() + "\n"
    if a in s and b in s:
        s = s[:s.index(a) + len(a)] + "\n" + body + "\n" + s[s.index(b):]
    else:
        s += "\n" + a + "\n" + body + "\n" + b + "\n"
    open(p, "w").write(s)
    print("DESIGN.md regenerated")


if __name__ == "__main__":
    main()
