#!/usr/bin/env python3
"""Confirm a sub-agent's seeded change and run the checks against it.

  tools/seedcheck.py <outdir of the agent> <seed name> [check ids ...]

Steps (all in scratch worktrees under /tmp, never in /repo):
 1. fresh worktree of /repo HEAD + patch.diff applied; builds; the repository's own suite still passes
 2. the agent's demonstration fails with the change and passes without it
 3. the quick tier of the given checks (default: the property the change targets) is run
    against the changed tree (VERIF_REPO) and the verdicts recorded
 4. on success the change is kept as /verif/seeded/<seed name>/ (patch.diff, demo/, meta.json)
"""
import json
import os
import shutil
import subprocess
import sys
import time

VERIF = os.path.dirname(os.path.dirname(os.path.abspath(__file__)))
ENV = dict(os.environ, GOFLAGS="-mod=mod", GOPROXY="off", GOSUMDB="off", GOTOOLCHAIN="local")


def sh(cmd, cwd="/", timeout=1800, env=None):
    p = subprocess.run(cmd, cwd=cwd, env=env or ENV, shell=True, stdout=subprocess.PIPE, stderr=subprocess.STDOUT, text=True, timeout=timeout)
    return p.returncode, p.stdout


def demo_run(demo_src, tree, tag):
    d = "/tmp/sv-demo-" + tag
    shutil.rmtree(d, ignore_errors=True)
    shutil.copytree(demo_src, d)
    gm = os.path.join(d, "go.mod")
    lines = []
    for l in open(gm).read().splitlines():
        if l.strip().startswith("replace github.com/cloudwego/frugal ") or "github.com/cloudwego/frugal =>" in l:
            l = "replace github.com/cloudwego/frugal => " + tree
        lines.append(l)
    open(gm, "w").write("\n".join(lines) + "\n")
    shutil.copy(os.path.join(tree, "go.sum"), os.path.join(d, "go.sum"))
    meta = json.load(open(os.path.join(os.path.dirname(demo_src), "meta.json")))
    race = " -race" if "-race" in (meta.get("demo_cmd") or "") else ""
    rc, out = sh("go test -count=1%s ./... 2>&1 | tail -25" % race, d, timeout=1200)
    failed = ("FAIL" in out) or ("panic:" in out) or ("fatal error" in out)
    shutil.rmtree(d, ignore_errors=True)
    return failed, out


def main():
    outdir, name = os.path.abspath(sys.argv[1]), sys.argv[2]
    meta = json.load(open(os.path.join(outdir, "meta.json")))
    prop = meta.get("property")
    checks = sys.argv[3:] or [prop]
    wt = "/tmp/sv-" + name
    clean = "/tmp/sv-clean-" + name
    for w in (wt, clean):
        sh("git -C /repo worktree remove --force %s 2>/dev/null; rm -rf %s; git -C /repo worktree add -f %s HEAD -q" % (w, w, w))
    res = {"seed": name, "property": prop, "checked_at_repo_commit": sh("git -C /repo rev-parse --short HEAD")[1].strip()}
    try:
        rc, out = sh("git apply %s" % os.path.join(outdir, "patch.diff"), wt)
        if rc != 0:
            res["status"] = "patch does not apply: " + out[-300:]
            return res
        rc, out = sh("go build ./... && go test -count=1 ./... 2>&1 | tail -12 && (cd tests && go test -count=1 ./... 2>&1 | tail -4) && (cd fuzz && go test -count=1 ./... 2>&1 | tail -4)", wt)
        res["existing_tests_pass"] = rc == 0 and "FAIL" not in out
        if not res["existing_tests_pass"]:
            res["status"] = "existing tests fail with the change"
            res["log"] = out[-800:]
            return res
        f1, o1 = demo_run(os.path.join(outdir, "demo"), wt, name)
        f0, o0 = demo_run(os.path.join(outdir, "demo"), clean, name + "c")
        res["demo_fails_with_change"] = f1
        res["demo_passes_without"] = not f0
        if not (f1 and not f0):
            res["status"] = "demonstration not confirmed"
            res["log"] = (o1[-600:] + "\n----\n" + o0[-600:])
            return res
        verdicts = {}
        for pid in checks:
            t0 = time.time()
            p = subprocess.run([os.path.join(VERIF, "check"), pid, "quick"], cwd=VERIF, env=dict(ENV, VERIF_REPO=wt, VERIF_ALT_DIR=os.path.join(VERIF, ".work", "alt-" + name)),
                               stdout=subprocess.PIPE, stderr=subprocess.STDOUT, text=True)
            first = [l.strip()[:220] for l in p.stdout.splitlines() if l.strip().startswith("[")][:1]
            verdicts[pid] = {"exit": p.returncode, "caught": p.returncode == 1, "secs": round(time.time() - t0, 1), "first_failure": first[0] if first else ""}
        res["checks"] = verdicts
        res["status"] = "confirmed"
        # keep it
        dst = os.path.join(VERIF, "seeded", name)
        if os.path.abspath(outdir) != os.path.abspath(dst):
            shutil.rmtree(dst, ignore_errors=True)
            os.makedirs(dst)
            shutil.copy(os.path.join(outdir, "patch.diff"), dst)
            shutil.copytree(os.path.join(outdir, "demo"), os.path.join(dst, "demo"))
        m = {"property": prop, "summary": meta.get("summary"), "needs_to_manifest": meta.get("needs_to_manifest"),
             "files_changed": meta.get("files_changed"), "agent_notes": meta.get("agent_notes") or meta.get("notes"),
             "demo_cmd": meta.get("demo_cmd"), "rebased": meta.get("rebased"),
             "confirmed": {"applies_to_repo_commit": res["checked_at_repo_commit"], "existing_tests_pass": True,
                           "demo_fails_with_change": True, "demo_passes_without": True,
                           "ran": "tools/seedcheck.py: scratch worktree of /repo HEAD + patch.diff; repository suite (root, tests/, fuzz/); demo with and without the change; ./check <id> quick with VERIF_REPO=<scratch tree>"},
             "checks": verdicts}
        json.dump(m, open(os.path.join(dst, "meta.json"), "w"), indent=1)
        return res
    finally:
        for w in (wt, clean):
            sh("git -C /repo worktree remove --force %s; rm -rf %s" % (w, w))
        shutil.rmtree(os.path.join(VERIF, ".work", "alt-" + name), ignore_errors=True)


if __name__ == "__main__":
    r = main()
    print(json.dumps(r, indent=1))
