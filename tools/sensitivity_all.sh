#!/bin/bash
# Re-runs the whole sensitivity suite against the current machinery and /repo HEAD:
# every kept seeded change (its target check plus the neighbouring checks recorded in its
# meta.json) and every mutant. Results: seeded/*/meta.json, tools/mutants_results.jsonl; then
# tools/report.py refreshes DESIGN.md §10. Three seeded changes are checked at a time.
cd /verif
one() {
  d=$1
  name=$(basename $d)
  checks=$(python3 -c "
import json
m=json.load(open('$d/meta.json'))
ks=[m['property']]+[k for k in (m.get('checks') or {}) if k!=m['property']]
print(' '.join(ks))")
  python3 tools/seedcheck.py $d $name $checks > /tmp/sens-$name.json 2>&1
  echo "$name $(python3 -c "import json;d=json.load(open('/tmp/sens-$name.json'));print(d.get('status'),{k:v['caught'] for k,v in d.get('checks',{}).items()})" 2>/dev/null)"
}
export -f one
ls -d seeded/*/ | xargs -P 3 -I{} bash -c 'one {}'
MUTANTS_FORCE=1 python3 tools/mutants.py run | python3 -c "
import sys,json
for l in sys.stdin:
    try: r=json.loads(l); print(r['mutant'], r.get('status'), r.get('caught_by'), r.get('missed_by'))
    except Exception: pass"
python3 tools/report.py
