#!/bin/bash
# Re-runs the whole sensitivity suite against the current machinery and /repo HEAD:
# every kept seeded change (target check only) and every mutant. Results: seeded/*/meta.json,
# tools/mutants_results.jsonl; then tools/report.py refreshes DESIGN.md §10.
# The agents' original output directories (patch.diff, demo/, meta.json) are taken from seeded/.
cd /verif
for d in seeded/*/; do
  name=$(basename $d)
  prop=$(python3 -c "import json;print(json.load(open('$d/meta.json'))['property'])")
  extra=""
  case $name in C16b-*) extra="C08";; C07-map-tmp*) extra="";; esac
  # seedcheck reads <outdir>/meta.json (needs property, summary, needs_to_manifest...) and <outdir>/{patch.diff,demo}
  python3 tools/seedcheck.py $d $name $prop $extra > /tmp/sens-$name.json 2>&1
  echo "$name $(python3 -c "import json;d=json.load(open('/tmp/sens-$name.json'));print(d.get('status'),{k:v['caught'] for k,v in d.get('checks',{}).items()})" 2>/dev/null)"
done
MUTANTS_FORCE=1 python3 tools/mutants.py run | python3 -c "
import sys,json
for l in sys.stdin:
    try: r=json.loads(l); print(r['mutant'], r.get('status'), r.get('caught_by'), r.get('missed_by'))
    except Exception: pass"
python3 tools/report.py
