#!/usr/bin/env python3
"""Sensitivity runs (DESIGN.md §5): apply one realistic small edit to a scratch
worktree of /repo (never /repo itself), confirm it still builds and passes the
repository's own test suite, then run the quick tier of the named checks against the
scratch tree (VERIF_REPO) and report which ones raise a VIOLATION.

  tools/mutants.py list
  tools/mutants.py run [name ...]        (default: all)   -> appends to tools/mutants_results.jsonl
"""
import json
import os
import shutil
import subprocess
import sys
import time

VERIF = os.path.dirname(os.path.dirname(os.path.abspath(__file__)))
ENV = dict(os.environ, GOFLAGS="-mod=mod", GOPROXY="off", GOSUMDB="off", GOTOOLCHAIN="local")
R = "internal/reflect/"
D = "internal/defs/"

# (name, file, old, new, [properties expected to catch it])
MUTANTS = [
    ("map-i16-i64-uses-i32-routine", R + "append_map_fast.go", "registerMapAppendFunc(tI16, tI64, appendMap_I16_I64)", "registerMapAppendFunc(tI16, tI64, appendMap_I16_I32)", ["C02", "C01"]),
    ("list-enum-writes-8-bytes", R + "append_list_fast.go", "		b = appendUint32(b, uint32(*((*int64)(vp))))", "		b = appendUint64(b, uint64(*((*int64)(vp))))", ["C02", "C01"]),
    ("field-id-high-bit-dropped", R + "append.go", "b = append(b, byte(t.WT), byte(f.ID>>8), byte(f.ID))", "b = append(b, byte(t.WT), byte(f.ID>>8)&0x7f, byte(f.ID))", ["C02", "C01", "C12"]),
    ("ttype-cache-ignores-annotation", R + "ttype.go", "k := ttypesK{T: x.String(), S: x.S}", "k := ttypesK{S: x.S}", ["C02", "C12"]),
    ("enum-decode-no-sign-extension", R + "decoder.go", "*(*int64)(p) = int64(int32(binary.BigEndian.Uint32(b)))", "*(*int64)(p) = int64(binary.BigEndian.Uint32(b))", ["C01", "C03"]),
    ("decode-ignores-wire-type", R + "decoder.go", "if f == nil || f.Type.WT != tp {", "if f == nil || (f.Type.WT != tp && f.Type.FixedSize == 0) {", ["C03", "C05", "C11"]),
    ("decode-returns-n-minus-1-with-trailing", R + "reflect.go", "	n, err := d.Decode(b, rv.UnsafePointer(), sd, maxDepthLimit)\n	decoderPool.Put(d)\n	return n, err", "	n, err := d.Decode(b, rv.UnsafePointer(), sd, maxDepthLimit)\n	decoderPool.Put(d)\n	if n < len(b) && err == nil {\n		n++\n	}\n	return n, err", ["C03"]),
    ("size-list-uses-cap", R + "ttype.go", "return listHeaderLen + (h.Len * vt.FixedSize), nil", "return listHeaderLen + (h.Cap * vt.FixedSize), nil", ["C04", "C16"]),
    ("encode-no-length-test", "frugal.go", "if len(ret) > len(buf) {", "if len(ret) > len(buf)+8 {", ["C04"]),
    ("size-optional-default-counts-header-only-once", R + "ttype.go", "		if f.CanSkipIfDefault && t.Equal(f.Default, p) {\n			continue\n		}\n		if n := t.FixedSize; n > 0 {", "		if f.CanSkipIfDefault && t.T != tDOUBLE && t.Equal(f.Default, p) {\n			continue\n		}\n		if n := t.FixedSize; n > 0 {", ["C04", "C10"]),
    ("list-count-check-removed", R + "decoder.go", "if remain := len(b) - i; l > remain/int(minWireSize[et.WT]) || !d.claim(l, int(minWireSize[et.WT])) {", "if remain := len(b) - i; (l > remain/int(minWireSize[et.WT]) || !d.claim(l, int(minWireSize[et.WT]))) && et.FixedSize > 0 {", ["C05"]),
    ("claim-quota-never-exhausted", R + "decoder.go", "	d.quota -= l * sz\n	return d.quota >= 0", "	d.quota -= l * sz\n	return true", ["C05"]),
    ("claim-quota-too-small", R + "decoder.go", "	d.quota = 8*n + 1024", "	d.quota = n / 2", ["C03", "C01"]),
    ("pointer-binary-decoded-as-string", R + "ttype.go", "	if t.IsPointer {\n		return t.V.Tag == defs.T_binary\n	}\n	return t.Tag == defs.T_binary", "	return t.Tag == defs.T_binary", ["C01", "C14", "C03"]),
    ("double-key-fast-path-back", R + "append_map.go", "	if t.K.T == tDOUBLE {", "	if t.K.T == tDOUBLE && t.V.T == tSTRUCT {", ["C02", "C01"]),
    ("binary-map-value-fast-path-back", R + "append_map.go", "	if t.V.Tag == defs.T_binary {", "	if t.V.Tag == defs.T_binary && t.K.T == tSTRING {", ["C02", "C01"]),
    ("recursive-container-check-removed", D + "types.go", "	if def == \"\" && isRecursiveContainer(vt, nil) {", "	if def == \"\" && vt.Kind() == reflect.Slice && isRecursiveContainer(vt, nil) {", ["C13"]),
    ("unknown-fields-size-recomputed-per-add", R + "unknownfields.go", "	p.sz += sz\n	p.offs = append(p.offs, unknownFieldIdx{off: off, sz: sz})", "	p.offs = append(p.offs, unknownFieldIdx{off: off, sz: sz})\n	p.sz = 0\n	for _, x := range p.offs {\n		p.sz += x.sz\n	}", ["C05"]),
    ("string-field-length-16-bit", R + "append.go", "				s := *((*string)(p))\n				b = appendUint32(b, uint32(len(s)))", "				s := *((*string)(p))\n				b = appendUint32(b, uint32(uint16(len(s))))", ["C02", "C01"]),
    ("list-count-16-bit", R + "append_list.go", "	n := uint32(h.Len)", "	n := uint32(uint16(h.Len))", ["C02", "C01"]),
    ("map-count-16-bit", R + "append_map.go", "		n = uint32(maplen(*(*unsafe.Pointer)(p)))", "		n = uint32(uint16(maplen(*(*unsafe.Pointer)(p))))", ["C02", "C04"]),
    ("anon-struct-qualifier-not-consumed", D + "types.go", "		/* update parsing position */\n		*i = sp\n		return true, nil", "		return true, nil", ["C12"]),
    ("anon-struct-keyword-check-removed", D + "types.go", "		return !isTypeKeyword(*tv), nil", "		return true, nil", ["C13"]),
    ("nested-pointer-check-removed", D + "types.go", "		if !allowPtrs {\n			return nil, EType(vt, \"nested pointer is not allowed\")\n		}", "		if !allowPtrs && vt.Elem().Kind() == reflect.Ptr {\n			return nil, EType(vt, \"nested pointer is not allowed\")\n		}", ["C13"]),
    ("embedded-holder-accepted-again", R + "desc.go", "	if ok && len(f.Index) == 1 && f.Type.Kind() == reflect.Slice", "	if ok && f.Type.Kind() == reflect.Slice", ["C12"]),
    ("encode-uses-full-capacity-again", "frugal.go", "reflect.Append(buf[:0:len(buf)], val)", "reflect.Append(buf[:0], val)", ["C04", "C16"]),
    ("truncated-field-header-unchecked", R + "decoder.go", "		if len(b)-i < 2 {\n			return i, io.ErrShortBuffer\n		}", "		if len(b)-i < 1 {\n			return i, io.ErrShortBuffer\n		}", ["C05"]),
    ("skip-recover-removed", R + "decoder.go", "		if r := recover(); r != nil {\n			n, err = 0, thrift.NewProtocolException(thrift.INVALID_DATA,", "		if r := error(nil); r != nil {\n			n, err = 0, thrift.NewProtocolException(thrift.INVALID_DATA,", ["C05"]),
    ("required-name-by-offset-again", R + "decoder.go", "newRequiredFieldNotSetException(sd.GetField(fid).Name)", "newRequiredFieldNotSetException(sd.rt.Field(0).Name)", ["C09"]),
    ("size-derefs-byvalue-structs-again", R + "ttype.go", "	if t.IsPointer { // never true when called from reflect.EncodedSize", "	if t.IsPointer || (t.T == tSTRUCT && t.RT.Size() == 8) { // never true when called from reflect.EncodedSize", ["C04"]),
    ("negative-length-off-by-one", R + "decoder.go", "		l := int(int32(binary.BigEndian.Uint32(b)))\n		if l < 0 {\n			return 0, errNegativeSize\n		}\n		i := 4", "		l := int(int32(binary.BigEndian.Uint32(b)))\n		if l < -1 {\n			return 0, errNegativeSize\n		}\n		i := 4", ["C05"]),
    ("list-elem-type-not-compared", R + "decoder.go", "		if et.WT != tp {\n			return 0, newTypeMismatch(et.WT, tp)\n		}", "		if et.WT != tp && et.FixedSize == 0 {\n			return 0, newTypeMismatch(et.WT, tp)\n		}", ["C05", "C03"]),
    ("map-key-type-not-compared", R + "decoder.go", "if t0 != kt.WT || t1 != vt.WT {", "if t1 != vt.WT {", ["C05"]),
    ("span-malloc-forgets-alignment-offset", R + "span.go", "s.p += n + int(off)", "s.p += n", ["C06"]),
    ("string-slice-backing-not-scanned", R + "ttype.go", "case reflect.Array, reflect.Map, reflect.Ptr, reflect.Slice, reflect.String, reflect.Struct:", "case reflect.Array, reflect.Map, reflect.Ptr, reflect.Slice, reflect.Struct:", ["C06"]),
    ("short-strings-alias-input", R + "decoder.go", "		x := d.Malloc(l, 1, 0)\n		if t.isBinary() {", "		x := d.Malloc(l, 1, 0)\n		if l < 4 && !t.isBinary() {\n			*(*string)(p) = unsafe.String(&b[i], l)\n			return i + l, nil\n		}\n		if t.isBinary() {", ["C06", "C14"]),
    ("bitset-not-cleared", R + "decoder.go", "		for _, f := range sd.requiredFieldIDs {\n			bs.unset(f)\n		}", "		for _, f := range sd.requiredFieldIDs[1:] {\n			bs.unset(f)\n		}", ["C09", "C07"]),
    ("unknown-fields-not-reset", R + "decoder.go", "		ufs.Reset()\n", "		if len(b) > 8 {\n			ufs.Reset()\n		}\n", ["C11", "C07"]),
    ("map-tmp-not-cleared", R + "decoder.go", "			} else if vt.T == tSTRUCT {", "			} else if vt.T == tSTRUCT && j == 0 {", ["C07", "C03", "C01"]),
    ("create-desc-without-mutex", R + "desc.go", "	sdsmu.Lock()\n	defer sdsmu.Unlock()\n	if sd := sds.Get(abiType); sd != nil {", "	if sd := sds.Get(abiType); sd != nil {", ["C08"]),
    ("publish-before-prefetch", R + "desc.go", "	sd, err := newStructDescAndPrefetch(rt)\n	if err != nil {\n		rollbackPrefetch()\n		return nil, err\n	}\n	commitPrefetch()\n	sds.Set(abiType, sd)", "	sd, err := newStructDesc(rt)\n	if err != nil {\n		return nil, err\n	}\n	sds.Set(abiType, sd)\n	prefetchStructDescCache[rt] = sd\n	if err := prefetchSubStructDesc(sd); err != nil {\n		rollbackPrefetch()\n		return nil, err\n	}\n	commitPrefetch()", ["C08", "C13"]),
    ("required-check-covers-64-fields-only", R + "decoder.go", "	for _, fid := range sd.requiredFieldIDs {\n		if !bs.test(fid) {", "	for k, fid := range sd.requiredFieldIDs {\n		if k >= 64 {\n			break\n		}\n		if !bs.test(fid) {", ["C09"]),
    ("holder-of-recycled-destination-reused-in-place", R + "decoder.go", "		*(*[]byte)(unsafe.Add(base, sd.unknownFieldsOffset)) = ufs.Copy(b)", "		if old := (*[]byte)(unsafe.Add(base, sd.unknownFieldsOffset)); cap(*old) >= ufs.Size() {\n			*old = append((*old)[:0], ufs.Copy(b)...)\n		} else {\n			*old = ufs.Copy(b)\n		}", ["C06"]),
    ("required-check-stops-after-first", R + "decoder.go", "	for _, fid := range sd.requiredFieldIDs {\n		if !bs.test(fid) {", "	for k, fid := range sd.requiredFieldIDs {\n		if k > 1 {\n			break\n		}\n		if !bs.test(fid) {", ["C09"]),
    ("bitset-word-index-wrong-above-4095", R + "bitset.go", "func (s *bitset) set(i uint16) {\n	x, y := i>>6, i&63 // i/64, i%64", "func (s *bitset) set(i uint16) {\n	x, y := (i>>6)&63, i&63 // i/64, i%64", ["C09"]),
    ("required-nil-container-skipped", R + "desc.go", "	f.CanSkipEncodeIfNil = f.Spec == defs.Optional &&", "	f.CanSkipEncodeIfNil = f.Spec != defs.Default &&", ["C09", "C02", "C10"]),
    ("skip-default-for-any-requiredness", R + "desc.go", "	f.CanSkipIfDefault = (f.Spec == defs.Optional) &&", "	f.CanSkipIfDefault = (f.Spec != defs.Required) &&", ["C10", "C02"]),
    ("no-initdefault-for-nested-structs-in-lists", R + "decoder.go", "				n, err := d.decodeType(et, b[i:], vp, maxdepth-1)", "				n, err := d.decodeListElem(et, b[i:], vp, maxdepth-1)", ["C10", "C03"]),
    ("double-default-compared-as-int64", R + "ttype.go", "	case tDOUBLE:\n		return *(*float64)(p0) == *(*float64)(p1)", "	case tDOUBLE:\n		return *(*int64)(p0) == *(*int64)(p1)", []),  # must NOT alarm: bit equality is an allowed reading
    ("unknown-field-header-dropped", R + "decoder.go", "ufs.Add(i-fieldHeaderLen, n+fieldHeaderLen)", "ufs.Add(i, n)", ["C11"]),
    ("size-ignores-holder", R + "ttype.go", "		ret += len(*(*[]byte)(unsafe.Add(base, sd.unknownFieldsOffset)))", "		ret += len(*(*[]byte)(unsafe.Add(base, sd.unknownFieldsOffset))) &^ 1", ["C11", "C04"]),
    ("holder-only-last-unknown-field", R + "unknownfields.go", "	p.sz += sz\n	p.offs = append(p.offs, unknownFieldIdx{off: off, sz: sz})", "	if len(p.offs) > 2 {\n		return\n	}\n	p.sz += sz\n	p.offs = append(p.offs, unknownFieldIdx{off: off, sz: sz})", ["C11"]),
    ("thrift-tag-keeps-name-segment", D + "resolver.go", "			return trimSpaces(ss[1:]), true", "			if _, err := strconv.Atoi(strings.TrimSpace(ss[0])); err == nil {\n				return trimSpaces(ss), true\n			}\n			return trimSpaces(ss[1:]), true", ["C12"]),
    ("byte-keyword-removed", D + "types.go", '	T_i8:     "i8 byte",', '	T_i8:     "i8",', ["C12"]),
    ("thrift-tag-preferred-over-frugal", D + "resolver.go", '	if s, ok := tag.Lookup("frugal"); ok {\n		return trimSpaces(strings.Split(s, ",")), true\n	}\n	if s, ok := tag.Lookup("thrift"); ok {\n		if ss := strings.Split(s, ","); len(ss) > 0 {\n			// ignore the field name tag\n			return trimSpaces(ss[1:]), true\n		}\n	}', '	if s, ok := tag.Lookup("thrift"); ok {\n		if ss := strings.Split(s, ","); len(ss) > 1 {\n			// ignore the field name tag\n			return trimSpaces(ss[1:]), true\n		}\n	}\n	if s, ok := tag.Lookup("frugal"); ok {\n		return trimSpaces(strings.Split(s, ",")), true\n	}', ["C12"]),
    ("unexported-tagged-fields-used", D + "resolver.go", "		if sf = vt.Field(i); sf.Anonymous || sf.PkgPath != \"\" {", "		if sf = vt.Field(i); sf.Anonymous {", ["C12"]),
    ("uint32-accepted-as-i32", D + "types.go", "	case reflect.Uint32:\n		return nil, EUseOther(vt, \"int32\")", "	case reflect.Uint32:\n		tag = T_i32", ["C13"]),
    ("nocopy-type-test-dropped", D + "resolver.go", "					if pt.Tag() != T_string {", "					if pt.Tag() != T_string && pt.Tag() != T_list {", ["C13"]),
    ("duplicate-id-test-dropped", D + "resolver.go", "		if _, ok = ids[id]; !ok {\n			ids[id] = struct{}{}\n		} else {", "		if _, ok = ids[id]; !ok || id > 6 {\n			ids[id] = struct{}{}\n		} else {", ["C13"]),
    ("trailing-token-check-dropped", D + "types.go", "		} else if tk != \"\" {\n			return nil, ESyntax(i-len(tk), def, fmt.Sprintf(\"unexpected %q after the type\", tk))", "		} else if tk != \"\" && tk != \">\" {\n			return nil, ESyntax(i-len(tk), def, fmt.Sprintf(\"unexpected %q after the type\", tk))", ["C13"]),
    ("rollback-forgets-links", R + "desc.go", "	for _, t := range prefetchLinkedTypes {\n		t.Sd = nil\n	}", "", ["C13"]),
    ("nocopy-binary-keeps-capacity", R + "decoder.go", "		*(*[]byte)(p) = unsafe.Slice(&b[i], l)\n	} else {\n		*(*string)(p) = unsafe.String(&b[i], l)\n	}\n	i += l\n	return\n}", "		*(*[]byte)(p) = b[i : i+l]\n	} else {\n		*(*string)(p) = unsafe.String(&b[i], l)\n	}\n	i += l\n	return\n}", ["C14"]),
    ("nocopy-empty-points-into-buffer", R + "decoder.go", "	i += 4\n	if l == 0 {\n		if t.isBinary() {\n			*(*[]byte)(p) = []byte{}", "	i += 4\n	if l == 0 {\n		if t.isBinary() {\n			*(*[]byte)(p) = b[i:i:i]", ["C14"]),
    ("nocopy-pointer-form-copied", R + "decoder.go", "			if f.NoCopy {\n				n, err = decodeStringNoCopy(t, b[i:], p)", "			if f.NoCopy && !t.IsPointer {\n				n, err = decodeStringNoCopy(t, b[i:], p)", ["C14"]),
    ("depth-limit-huge", R + "decoder.go", "const maxDepthLimit = 1023", "const maxDepthLimit = 1 << 30", ["C15"]),
    ("depth-test-at-struct-dropped", R + "decoder.go", "func (d *tDecoder) Decode(b []byte, base unsafe.Pointer, sd *structDesc, maxdepth int) (int, error) {\n	if maxdepth == 0 {\n		return 0, errDepthLimitExceeded\n	}", "func (d *tDecoder) Decode(b []byte, base unsafe.Pointer, sd *structDesc, maxdepth int) (int, error) {", ["C15"]),
    ("encoder-normalises-nil-list-in-place", R + "append_list.go", "	if *(*unsafe.Pointer)(p) == nil {\n		return append(b, byte(t.WT), 0, 0, 0, 0), 0, nil\n	}", "	if *(*unsafe.Pointer)(p) == nil {\n		(*sliceHeader)(p).Zero()\n		return append(b, byte(t.WT), 0, 0, 0, 0), 0, nil\n	}", ["C16"]),
    ("encoder-writes-byte-after-n", "frugal.go", "	return len(ret), err\n}", "	if len(ret) < len(buf) {\n		buf[len(ret)] = 0\n	}\n	return len(ret), err\n}", ["C16"]),
    ("setter-returns-zero", "options.go", "func SetMaxInlineDepth(depth int) int {\n	return depth", "func SetMaxInlineDepth(depth int) int {\n	return 0", ["C17"]),
    ("pretouch-rejects-non-structs", "frugal.go", "func Pretouch(vt any, options ...Option) error {\n	return nil", "func Pretouch(vt any, options ...Option) error {\n	if _, ok := vt.(int); ok {\n		return fmt.Errorf(\"not a struct\")\n	}\n	return nil", ["C17"]),
    ("env-changes-depth-limit", R + "reflect.go", "	n, err := d.Decode(b, rv.UnsafePointer(), sd, maxDepthLimit)", "	lim := maxDepthLimit\n	if os.Getenv(\"FRUGAL_MAX_INLINE_DEPTH\") == \"3\" {\n		lim = 3\n	}\n	n, err := d.Decode(b, rv.UnsafePointer(), sd, lim)", ["C17"]),
    ("mapiter-on-heap", R + "hack.go", "func newMapIter(rv reflect.Value) mapIter {\n	return mapIter{*rv.MapRange()}\n}", "var lastIter *reflect.MapIter\n\nfunc newMapIter(rv reflect.Value) mapIter {\n	lastIter = rv.MapRange()\n	return mapIter{*lastIter}\n}", ["C18"]),
    ("append-struct-eager-error", R + "append.go", "	var err error\n	for _, f := range sd.fields {\n		t := f.Type", "	var err error\n	for _, f := range sd.fields {\n		t := f.Type\n		if t.T == tMAP {\n			err = withFieldErr(errType, sd, f)\n			err = nil\n		}", ["C18"]),
]

EXTRA_FILES = {
    # helper needed by a mutant
    "no-initdefault-for-nested-structs-in-lists": (R + "decoder.go", """
func (d *tDecoder) decodeListElem(t *tType, b []byte, p unsafe.Pointer, maxdepth int) (int, error) {
	if t.T == tSTRUCT {
		if maxdepth == 0 {
			return 0, errDepthLimitExceeded
		}
		return d.Decode(b, p, t.Sd, maxdepth-1)
	}
	return d.decodeType(t, b, p, maxdepth)
}
"""),
}
IMPORTS = {
    "thrift-tag-keeps-name-segment": None,
    "env-changes-depth-limit": (R + "reflect.go", 'import (\n	"errors"', 'import (\n	"errors"\n	"os"'),
}


def sh(cmd, cwd, timeout=900):
    p = subprocess.run(cmd, cwd=cwd, env=ENV, shell=True, stdout=subprocess.PIPE, stderr=subprocess.STDOUT, text=True, timeout=timeout)
    return p.returncode, p.stdout


def run_mutant(m, extra_props=None):
    name, path, old, new, expect = m
    wt = "/tmp/mut-" + name
    sh("git -C /repo worktree remove --force %s 2>/dev/null; rm -rf %s; git -C /repo worktree add -f %s HEAD -q" % (wt, wt, wt), "/")
    res = {"mutant": name, "file": path, "expected": expect}
    try:
        p = os.path.join(wt, path)
        s = open(p).read()
        if old not in s:
            res["status"] = "PATCH-DOES-NOT-APPLY"
            return res
        s = s.replace(old, new, 1)
        if name in EXTRA_FILES:
            s += EXTRA_FILES[name][1]
        open(p, "w").write(s)
        if IMPORTS.get(name):
            ip, io, in_ = IMPORTS[name]
            q = os.path.join(wt, ip)
            t = open(q).read()
            open(q, "w").write(t.replace(io, in_, 1))
        rc, out = sh("go build ./... && go vet ./internal/... >/dev/null 2>&1; go build ./...", wt)
        if rc != 0:
            res["status"] = "DOES-NOT-BUILD"
            res["log"] = out[-800:]
            return res
        rc, out = sh("go test -count=1 ./... 2>&1 | tail -15 && (cd tests && go test -count=1 ./... 2>&1 | tail -5) && (cd fuzz && go test -count=1 ./... 2>&1 | tail -5)", wt)
        res["baseline_pass"] = "FAIL" not in out and "panic" not in out
        if not res["baseline_pass"] and not os.environ.get("MUTANTS_FORCE"):
            res["status"] = "CAUGHT-BY-EXISTING-TESTS"
            res["log"] = out[-600:]
            return res
        caught, missed = [], []
        for pid in (extra_props or expect or ["C01", "C02", "C03", "C10"]):
            t0 = time.time()
            env = dict(ENV, VERIF_REPO=wt)
            p = subprocess.run([os.path.join(VERIF, "check"), pid, "quick"], cwd=VERIF, env=env, stdout=subprocess.PIPE, stderr=subprocess.STDOUT, text=True)
            first = ""
            for line in p.stdout.splitlines():
                if line.strip().startswith("["):
                    first = line.strip()[:160]
                    break
            (caught if p.returncode == 1 else missed).append({"check": pid, "rc": p.returncode, "secs": round(time.time() - t0, 1), "first": first})
        res["caught_by"] = [c["check"] for c in caught]
        res["missed_by"] = [c["check"] for c in missed]
        res["detail"] = caught + missed
        res["status"] = "CAUGHT" if caught else ("SILENT-AS-INTENDED" if not expect else "MISSED")
        if not res["baseline_pass"]:
            res["status"] += " (also caught by the repository's own tests)"
        return res
    finally:
        sh("git -C /repo worktree remove --force %s; rm -rf %s" % (wt, wt), "/")
        shutil.rmtree(os.path.join(VERIF, ".work", "alt"), ignore_errors=True)


def main():
    if len(sys.argv) < 2 or sys.argv[1] == "list":
        for m in MUTANTS:
            print(m[0], "->", m[4])
        return
    names = sys.argv[2:]
    sel = [m for m in MUTANTS if not names or m[0] in names]
    out = os.path.join(VERIF, "tools", "mutants_results.jsonl")
    for m in sel:
        r = run_mutant(m)
        print(json.dumps({k: v for k, v in r.items() if k not in ("detail",)}), flush=True)
        with open(out, "a") as f:
            f.write(json.dumps(r) + "\n")


if __name__ == "__main__":
    main()
