# Per-property configuration of the driver (./check). procs = worker processes,
# checks = rapid cases per process.
CHECKS = {
    "C01": dict(
        test="TestC01",
        quick=dict(procs=6, checks=3000),
        thorough=dict(procs=32, checks=20000, timeout=1500),
        rule="rapid draws (anonymous struct type via reflect.StructOf or a named generated type, value of it); "
             "non-trivial = value has >=1 non-zero leaf and the type has a container, a nested struct or >=3 fields; "
             "distinct by hash(type signature, reference encoding)",
        technique="property-based testing (rapid): generated (type, value) pairs, round-trip oracle against an independent reference model",
        level_text="Generated-input search: thousands of random struct types (reflect.StructOf and generated named/recursive types) x values with boundary scalars and threshold-straddling sizes; each case is encoded and decoded through the public API and compared with the reference model's normalised value. Exploration, not proof: absence of violations on the sampled space only.",
        level_note="Trusts the reference model (self-checked against apache/thrift) and the pure-reflect binder; go1.23.5 only; cyclic values, enums outside int32 and unsupported types are outside the property and never generated.",
    ),
}
