# Per-property configuration of the driver (./check). procs = worker processes,
# checks = rapid cases per process.
CHECKS = {
    "C01": dict(
        test="TestC01",
        quick=dict(procs=6, checks=3000),
        thorough=dict(procs=32, checks=20000, timeout=1500),
        rule="rapid draws (anonymous struct type via reflect.StructOf or a named generated type, value of it); "
             "non-trivial = value has >=1 non-zero leaf and the type has a container, a nested struct or >=3 fields; "
             "distinct by hash(type signature, reference encoding)",
        technique="property-based testing (rapid): generated (type, value) pairs, round-trip oracle against an independent reference model",
        level_text="Generated-input search: thousands of random struct types (reflect.StructOf and generated named/recursive types) x values with boundary scalars and threshold-straddling sizes; each case is encoded and decoded through the public API and compared with the reference model's normalised value. Exploration, not proof: absence of violations on the sampled space only.",
        level_note="Trusts the reference model (self-checked against apache/thrift) and the pure-reflect binder; go1.23.5 only; cyclic values, enums outside int32 and unsupported types are outside the property and never generated.",
    ),
    "C02": dict(
        test="TestC02",
        quick=dict(procs=6, checks=2500),
        thorough=dict(procs=32, checks=15000, timeout=1500),
        rule="rapid draws: half from the exhaustive table (9 map key kinds x 14 value forms, 14 element forms x list/set, sizes 0,1,2,8,9,130; "
             "cells hit are listed under classes 'cell:*'), half random types/values; non-trivial = output contains a container with >=2 elements or a nested struct; "
             "distinct by hash(type signature, canonical output bytes)",
        technique="property-based testing (rapid): differential against an independent reference encoder (up to map-entry order), a strict schema-less parser and apache/thrift TBinaryProtocol",
        level_text="Generated-input search with three independent oracles per case: canonical byte equality with the reference encoder, strict well-formedness parse consuming the output exactly, and apache/thrift v0.13.0 reading the same tree. The specialised map/list routines are each selected by table cells with >=2 entries.",
        level_note="Trusts the reference encoder/parser (self-checked against apache/thrift) and apache/thrift itself; go1.23.5 only.",
    ),
    "C03": dict(
        test="TestC03",
        quick=dict(procs=6, checks=2500),
        thorough=dict(procs=32, checks=15000, timeout=1500),
        rule="rapid draws (reader type T, value, wire edits, prior destination contents): the reference encoding is parsed and edited at every struct level "
             "(reorder, drop, insert unknown fields of every wire type, retype, renumber) plus trailing bytes; non-trivial = verdict ok, >=1 known field decoded and "
             "(>=1 skipped field or non-ascending field order or trailing bytes); distinct by hash(type signature, message bytes)",
        technique="property-based testing (rapid): schema-evolution message generator, differential against a pure reference decoder (value, n, untouched fields)",
        level_text="Generated well-formed foreign-writer messages for random reader types, decoded into fresh or pre-filled destinations and compared field by field with the reference decoder's result, including the returned n and ignored fields.",
        level_note="Duplicate field ids / map keys and by-value structs merged into non-fresh prior contents are left open by the properties: only safety is checked there (counted as gray-value). Trusts the reference decoder.",
    ),
    "C04": dict(
        test="TestC04",
        quick=dict(procs=6, checks=1500),
        thorough=dict(procs=32, checks=10000, timeout=1500),
        rule="rapid draws (type, value incl. retained unknown-field bytes, spare capacity); for every case all buffer lengths 0..size+1 when size<=96, else 13 sampled lengths; "
             "non-trivial = size>=8 and the type exercises a listed size-path branch (classes 'size:*'); distinct by hash(type signature, reference encoding)",
        technique="property-based testing (rapid): EncodedSize vs reference size and vs EncodeObject, guarded-arena oracle for every buffer length",
        level_text="Generated (type, value) pairs; EncodedSize by pointer and by value against the reference model, then EncodeObject into a guarded arena at every length from 0 to size+1 (sampled for large sizes) with and without spare capacity: success iff length>=size, bytes canonical-equal to the reference encoding, nothing outside buf[:len] modified.",
        level_note="buf[:len(buf)] may be clobbered on error (the property only forbids writing past the buffer); trusts the reference encoder.",
    ),
    "C05": dict(
        test="TestC05",
        quick=dict(procs=8, checks=150, timeout=600),
        thorough=dict(procs=32, checks=1500, timeout=2400),
        mem_gb=6,
        rule="rapid draws (type, valid or wire-edited message, mutation list); per case up to 10 drawn mutations (prefix, byte, length/count field from a hostile set, splice, insert, delete, random) and, for messages <=160 bytes, "
             "EVERY prefix, every length/count field x 11 hostile values and every type-code byte x 15 codes; each input is one evaluation; non-trivial = verdict is not ok and the model got past the first field or into a container; distinct by hash(type signature, input bytes)",
        technique="property-based testing / structured fuzzing (rapid): mutation of valid messages, three-valued reference classifier (well-formed / malformed / open), allocation-delta and crash oracles in an isolated worker with an address-space cap",
        level_text="Structured mutation fuzzing against a three-valued reference classifier: success iff well-formed (value and n compared), error iff malformed, no panic/fault/worker death, TotalAlloc delta <= 1 MiB + K(T)*len(input), input buffer unmodified. Worker deaths are replayed from a one-case journal.",
        level_note="'Time proportional to input' is only decided as termination (driver timeout); allocation is measured with GC off in a single goroutine after a warm-up use of the type; native coverage-guided fuzzing is a separate thorough-tier step.",
    ),
}
