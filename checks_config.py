# Per-property configuration of the driver (./check). procs = worker processes,
# checks = rapid cases per process.
CHECKS = {
    "C01": dict(
        test="TestC01",
        quick=dict(procs=6, checks=3000),
        thorough=dict(procs=32, checks=20000, timeout=1500),
        rule="rapid draws (anonymous struct type via reflect.StructOf or a named generated type, value of it; about one value in a hundred carries one large leaf: a string/binary of 64 KiB..1 MiB or a list/set/map of 1000..70000 scalars or short strings, counted under generated:huge-*); "
             "non-trivial = value has >=1 non-zero leaf and the type has a container, a nested struct or >=3 fields; "
             "distinct by hash(type signature, reference encoding)",
        technique="property-based testing (rapid): generated (type, value) pairs, round-trip oracle against an independent reference model",
        level_text="Generated-input search: thousands of random struct types (reflect.StructOf and generated named/recursive types) x values with boundary scalars and threshold-straddling sizes; each case is encoded and decoded through the public API and compared with the reference model's normalised value. Exploration, not proof: absence of violations on the sampled space only.",
        level_note="Trusts the reference model (self-checked against apache/thrift) and the pure-reflect binder; go1.23.5 only; cyclic values, enums outside int32 and unsupported types are outside the property and never generated.",
    ),
    "C02": dict(
        test="TestC02",
        table_cells=9 * 14 * 9 + 14 * 2 * 9,
        quick=dict(procs=6, checks=2500),
        thorough=dict(procs=32, checks=15000, timeout=1500),
        rule="rapid draws: half from the exhaustive table (9 map key kinds x 14 value forms, 14 element forms x list/set, sizes 0,1,2,8,9,27,55,111,130; "
             "cells hit are listed under classes 'cell:*'), half random types/values; non-trivial = output contains a container with >=2 elements or a nested struct; "
             "distinct by hash(type signature, canonical output bytes)",
        technique="property-based testing (rapid): differential against an independent reference encoder (up to map-entry order), a strict schema-less parser and apache/thrift TBinaryProtocol",
        level_text="Generated-input search with three independent oracles per case: canonical byte equality with the reference encoder, strict well-formedness parse consuming the output exactly, and apache/thrift v0.13.0 reading the same tree. The specialised map/list routines are each selected by table cells with >=2 entries.",
        level_note="Trusts the reference encoder/parser (self-checked against apache/thrift) and apache/thrift itself; go1.23.5 only.",
    ),
    "C03": dict(
        test="TestC03",
        quick=dict(procs=6, checks=2500),
        thorough=dict(procs=32, checks=15000, timeout=1500),
        rule="rapid draws (reader type T, value, wire edits, prior destination contents): the reference encoding is parsed and edited at every struct level "
             "(reorder, drop, insert unknown fields of every wire type, retype, renumber) plus trailing bytes; non-trivial = verdict ok, >=1 known field decoded and "
             "(>=1 skipped field or non-ascending field order or trailing bytes); distinct by hash(type signature, message bytes)",
        technique="property-based testing (rapid): schema-evolution message generator, differential against a pure reference decoder (value, n, untouched fields)",
        level_text="Generated well-formed foreign-writer messages for random reader types, decoded into fresh or pre-filled destinations and compared field by field with the reference decoder's result, including the returned n and ignored fields.",
        level_note="Duplicate field ids / map keys and by-value structs merged into non-fresh prior contents are left open by the properties: only safety is checked there (counted as gray-value). Trusts the reference decoder.",
    ),
    "C04": dict(
        test="TestC04",
        table_cells=9 * 14 * 9 + 14 * 2 * 9,
        quick=dict(procs=6, checks=1500),
        thorough=dict(procs=32, checks=10000, timeout=1500),
        rule="rapid draws (type, value incl. retained unknown-field bytes, spare capacity); for every case all buffer lengths 0..size+1 when size<=96, else 13 sampled lengths; "
             "non-trivial = size>=8 and the type exercises a listed size-path branch (classes 'size:*'); distinct by hash(type signature, reference encoding)",
        technique="property-based testing (rapid): EncodedSize vs reference size and vs EncodeObject, guarded-arena oracle for every buffer length",
        level_text="Generated (type, value) pairs; EncodedSize by pointer and by value against the reference model, then EncodeObject into a guarded arena at every length from 0 to size+1 (sampled for large sizes) with and without spare capacity: success iff length>=size, bytes canonical-equal to the reference encoding, nothing outside buf[:len] modified.",
        level_note="buf[:len(buf)] may be clobbered on error (the property only forbids writing past the buffer); trusts the reference encoder.",
    ),
    "C05": dict(
        test="TestC05",
        quick=dict(procs=8, checks=150, timeout=600),
        thorough=dict(procs=32, checks=1500, timeout=2400, fuzz=dict(target="FuzzDecode", secs=120)),
        mem_gb=6,
        rule="rapid draws (type, valid or wire-edited message, mutation list); per case up to 10 drawn mutations (prefix, byte, length/count field from a hostile set, splice, insert, delete, random) and, for messages <=160 bytes, "
             "EVERY prefix, every length/count field x 11 hostile values and every type-code byte x 25 codes (all 256 values at the first three positions); one case in ten is instead a time-scaling measurement of one of 20 input families (classes scale:*); each input is one evaluation; non-trivial = verdict is not ok and the model got past the first field or into a container; distinct by hash(type signature, input bytes)",
        technique="property-based testing / structured fuzzing (rapid): mutation of valid messages, three-valued reference classifier (well-formed / malformed / open), allocation-delta and crash oracles in an isolated worker with an address-space cap; metamorphic CPU-time scaling relation (n vs 16n) over parameterised input families",
        level_text="Structured mutation fuzzing against a three-valued reference classifier: success iff well-formed (value and n compared), error iff malformed, no panic/fault/worker death, TotalAlloc delta <= 1 MiB + K(T)*len(input), input buffer unmodified. Worker deaths are replayed from a one-case journal.",
        level_note="'Time proportional to input' is decided as termination (driver timeout) and, for 20 families of inputs parameterised by a size n (thousands of unknown / repeated / mismatching fields, lists, sets and maps of every element shape, huge strings, empty inner lists, skipped containers; whole or cut to k/8), by a metamorphic CPU-time relation: thread CPU time (CLOCK_THREAD_CPUTIME_ID, collector off, minimum of 3) at 16n must not exceed 160x that at n (proportional: 12-20x, Go maps outgrowing the caches up to ~70x, quadratic 256x) in three measurements spread over two seconds and then 8x in each half n->4n->16n; inputs too fast to measure are counted and skipped. Anything between n^1 and n^2 is not decided. Allocation is measured with GC off in a single goroutine after a warm-up use of the type; native coverage-guided fuzzing is a separate thorough-tier step.",
    ),
    "C09": dict(
        test="TestC09",
        quick=dict(procs=6, checks=2500),
        thorough=dict(procs=32, checks=15000, timeout=1500),
        rule="rapid draws (type with ~55% required fields, ids from the boundary set around presence-set word edges and index growth; value with zeroed required fields; message with required fields dropped or retyped at any nesting level and, in half of those structs, other known (preferably required) fields repeated as many times as fields were taken away - a second occurrence must not stand in for a missing field - plus harmless repeats in complete structs; "
             "0-3 earlier decodes using the same ids); non-trivial = a required id >=64 or adjacent to a 64-bit word boundary or a required field in a nested struct, and >=1 required field dropped/retyped; distinct by hash(type signature, message)",
        technique="property-based testing (rapid): schema-aware message mutation (drop/retype required fields), reference-decoder verdict on the error kind and the named field; encoder output parsed for required ids",
        level_text="Generated types/messages; the decode verdict (success vs INVALID_DATA naming a field that is really missing) is compared with the reference decoder after preceding decodes that set the same presence bits; the encoder's output is parsed and every required id must be present with its declared wire type at every struct level.",
        level_note="Which missing field is named is left open when several are missing; trusts the reference decoder.",
    ),
    "C10": dict(
        test="TestC10",
        quick=dict(procs=6, checks=2500),
        thorough=dict(procs=32, checks=15000, timeout=1500),
        rule="rapid draws: 80% named generated types that declare or reach InitDefault (both body styles; curated DefW/DefF/DefH/DefNest and ~30 random per universe), values rewritten so optional fields equal / nearly equal (sign-flipped zero, nil vs empty binary) their declared default; "
             "decode side: message with optional fields dropped, fresh or pre-filled destination; non-trivial = type declares defaults with >=1 optional field equal and >=1 different from its default, or the decode creates a nested defaulted struct; distinct by hash(type, output, message)",
        technique="property-based testing (rapid): per-field presence oracle from the omission rule (three-valued for float equality), reference-decoder comparison of defaults in decoder-created structs",
        level_text="Generated values around declared defaults: the set of field ids present in the encoder's output is compared, per struct level, with the omission rule (Emit/Omit/Either); decoding into fresh and pre-filled destinations is compared with the reference decoder (declared defaults in created structs, prior contents kept at top level, optional pointers non-nil iff transmitted).",
        level_note="Float 'equal' is accepted both as IEEE == and as bit equality; named types come from generated source (one universe per seed).",
    ),
    "C11": dict(
        test="TestC11",
        quick=dict(procs=6, checks=2500),
        thorough=dict(procs=32, checks=15000, timeout=1500),
        rule="rapid draws: (older type T with holders at every struct level, newer schema N = T + added fields of 17 foreign shapes + retyped non-required fields, value of N, shuffled wire order) or (any type incl. named holder types, wire edits inserting/retyping/renumbering fields); "
             "non-trivial = >=2 unknown fields retained, or >=1 retained inside a nested struct; distinct by hash(T, message)",
        technique="property-based testing (rapid): schema-evolution pair generator, holder bytes vs reference parser extents, re-encode vs reference encoder, second-hop decode with the writer's schema",
        level_text="Generated (old reader, new writer) pairs: after decode every holder must equal the concatenation of the raw unknown fields in message order (reference decoder), EncodedSize/EncodeObject must re-emit them (reference encoder, canonical equality), and decoding the re-encoding with the writer's schema must give back the writer's value.",
        level_note="Second hop uses the reference decoder for N; nil/empty differences introduced by the intermediary's normalisation are ignored.",
    ),
    "C12": dict(
        test="TestC12",
        quick=dict(procs=6, checks=800),
        thorough=dict(procs=32, checks=5000, timeout=1500),
        no_universe=True,
        rule="rapid draws: one schema (ids over the whole range, annotation depth <=4, list vs set, enum vs i64 on the same Go type) rendered as 3-6 Go types differing in carrier tag (frugal / thrift / both with a contradicting thrift tag), omitted requiredness/annotation, byte vs i8, pkg-qualified names, spaces, declaration order and ignored fields (untagged, unexported-with-tag, embedded-with-tag, embedded struct declaring its own holder); "
             "non-trivial = >=2 spelling dimensions differ and the schema has a nested annotation or an enum; distinct by hash(schema, canonical output)",
        technique="property-based testing (rapid): metamorphic relation across equivalent tag spellings plus reference-model encoding of the AST the tags were rendered from; harness-side independent tag parser validates every rendered tag",
        level_text="Metamorphic: every spelling of the same schema must encode a random value to the reference encoding of that schema and decode a message identically; ignored fields keep sentinels through encode and decode. The harness's own tag parser re-derives (id, requiredness, annotation, options) from each rendered tag and must agree with the AST before a case counts.",
        level_note="Only spellings the documentation and thriftgo output establish as equivalent are generated; Go type names used as scalar annotations and similar accepted-but-undocumented forms are neither required nor forbidden.",
    ),
    "C13": dict(
        test="TestC13",
        quick=dict(procs=6, checks=1200),
        thorough=dict(procs=32, checks=6000, timeout=1500),
        no_universe=True,
        rule="enumerated invalid classes (~190: unsupported Go kinds, slice without annotation, contradicting / syntactically broken annotations, invalid map keys, non-struct pointers as elements/values/non-optional fields, pointer to pointer/container, bad ids, requiredness, options) x field position x 0-3 enclosing levels "
             "(pointer, by value, list, set, map value, map key, nested list) x histories of 2-8 calls over the invalid type, its enclosing types and a valid type sharing a nested type; plus argument kinds (nil, non-struct, pointer to non-struct, **S) and histories over 36 recursive named clusters A->*B->{*A,*C invalid}; "
             "non-trivial = invalid construct >=1 level below the argument type, or a cluster history of >=3 calls, or an argument case; distinct by hash(class, position, wraps, history)",
        technique="property-based testing (rapid): enumerated invalid-definition classes instantiated by reflect.StructOf at drawn positions, stateful call histories with a rejection oracle (error/n=0/untouched buffer and destination, ordinary panic for EncodedSize, same verdict on repetition)",
        level_text="Each invalid class is instantiated at random positions and nesting levels and exercised through all three entry points in random order, repeatedly and interleaved with valid types: EncodeObject/DecodeObject must return an error with n=0 leaving buffer and destination untouched, EncodedSize must panic without a memory fault, verdicts must repeat, enclosing types must be rejected too and valid neighbours keep round-tripping.",
        level_note="Classes are limited to definitions the property lists; forms frugal accepts although undocumented (Go type name as scalar annotation, *[]byte) are not asserted either way. Recursive clusters are single-use per process because descriptor caches never forget a type.",
    ),
    "C14": dict(
        test="TestC14",
        quick=dict(procs=6, checks=2500),
        thorough=dict(procs=32, checks=15000, timeout=1500),
        rule="rapid draws: types mixing nocopy and ordinary string/binary fields (plain and optional pointer) at top level and in nested pointer/by-value structs, list-element and map-value structs (curated NcIn/NcOut plus random), "
             "messages with value lengths 0..large in random wire order with unknown fields and trailing bytes; non-trivial = >=1 non-empty nocopy view and >=1 non-empty ordinary string/binary, one of them nested or optional-pointer; distinct by hash(type signature, message)",
        technique="property-based testing (rapid): address/len/cap oracle over every string and binary of the decoded object against the reference parser's value extents, plus a buffer-flip metamorphic check",
        level_text="For every decoded object all strings/binaries are collected with unsafe header reads: nocopy values must be exactly the model's value extents inside the input buffer (same address, same length, cap=len for binary), zero-length ones must not reference it, nothing else may overlap it; then every buffer byte is flipped and the object must change in exactly the nocopy fields.",
        level_note="Trusts the reference decoder's extents; go1.23.5 string/slice header layout.",
    ),
    "C15": dict(
        test="TestC15",
        quick=dict(procs=6, checks=600, timeout=900),
        thorough=dict(procs=16, checks=4000, timeout=2400),
        no_universe=True,
        mem_gb=8,
        rule="rapid draws (curated recursive type RecS/RecL/RecSet/RecMV/RecMK/RecLL/RecH/RecMix/RecWide, 0-40 variable-length sibling fields (known strings/list/map for RecWide, unknown strings otherwise) in every struct on the way down and 1000-3000 repeats in flat messages, nesting pattern of 1-4 steps among struct->struct, ->list->struct, ->set->struct, ->map value, ->map key, ->list->list->struct, ->list->map->set->struct; depth from a boundary list 1..10^6 or uniform; "
             "all-known or the deep part inside an unknown struct/list/map field at level <=45; trailing bytes); the message is synthesised directly as bytes; non-trivial = >=40 levels or a mixed pattern; distinct by (type, pattern, levels, position)",
        technique="property-based testing (rapid): synthesised deep messages, depth-band oracle (<=48 accept with the reference value, >=1024 DEPTH_LIMIT, in between either) in a worker with a bounded stack",
        level_text="Deep messages are generated for every recursive shape and position; up to 3000 levels the reference decoder follows (value equality below 49 levels, DEPTH_LIMIT-or-correct-value in the open band, DEPTH_LIMIT from 1024 levels), beyond that only the error kind is checked. The worker runs with SetMaxStack(256 MiB) so unbounded recursion dies and is reported from the journal.",
        level_note="The exact bound between 49 and 1023 levels is implementation-defined and not asserted; a level is one struct/list/set/map nested inside the top-level struct.",
    ),
    "C16": dict(
        test="TestC16",
        quick=dict(procs=8, checks=800),
        thorough=dict(procs=32, checks=6000, timeout=1800),
        rule="rapid draws (type, value incl. holder bytes, extra buffer space 0/1/64/4096; a second type incl. nocopy fields with a well-formed or mutated message for the decode half, decoded once from a guarded buffer and once from the binary field of a previously decoded envelope, optionally with a failing call in between); "
             "non-trivial = value reaches a map or pointer and extra>0; distinct by hash(type signature, canonical output, extra)",
        technique="property-based testing (rapid): deep snapshot (lifted value + address/len/cap of every pointer, slice, string, map header) before/after each call, guarded-arena oracle for bytes beyond n, repeat-encode canonical equality, input-buffer immutability on success and error",
        level_text="Every EncodedSize/EncodeObject call (by pointer and by value) is bracketed by deep snapshots of the argument; the buffer lives in a guarded arena and only buf[:n] may change; three encodes must be canonically equal; DecodeObject must leave its input (and its neighbourhood) bit-identical on success and on error.",
        level_note="Map iteration order is not part of the snapshot (entries are sorted).",
    ),
    "C17": dict(
        test="TestC17",
        quick=dict(procs=12, checks=400),
        thorough=dict(procs=36, checks=4000, timeout=1500),
        shard_env=[
            {"VERIF_C17_CONTROL": "1"},
            {"FRUGAL_MAX_INLINE_DEPTH": "2"},
            {"FRUGAL_MAX_INLINE_DEPTH": "3", "FRUGAL_MAX_INLINE_IL_SIZE": "257"},
            {"FRUGAL_MAX_INLINE_DEPTH": "16"},
            {"FRUGAL_MAX_INLINE_DEPTH": "0x10", "FRUGAL_MAX_INLINE_IL_SIZE": "50000"},
            {"FRUGAL_MAX_INLINE_DEPTH": "0b11", "FRUGAL_MAX_INLINE_IL_SIZE": "0x101"},
            {"FRUGAL_MAX_INLINE_DEPTH": "0o17"},
            {"FRUGAL_MAX_INLINE_DEPTH": "1_000", "FRUGAL_MAX_INLINE_IL_SIZE": "9223372036854775807"},
            {"FRUGAL_MAX_INLINE_DEPTH": "9223372036854775807"},
            {"FRUGAL_MAX_INLINE_IL_SIZE": "257"},
            {"FRUGAL_MAX_INLINE_IL_SIZE": "0x101", "FRUGAL_MAX_INLINE_DEPTH": "2"},
            {},
        ],
        rule="configurations = worker processes started with 12 FRUGAL_MAX_INLINE_* settings (decimal, hex, binary, octal, underscore, MaxInt64; one control process with empty environment and no legacy call); inside each, rapid draws (type, value, message, 4 lists of legacy calls: Pretouch on valid/invalid/nil/int/map arguments with option constructors at 0,-1,MaxInt..., NoJIT, setters, GetStats) placed before size, encode, decode and after; messages are reader-valid edits (shuffle, drop, insert, retype, renumber, odd bool bytes); "
             "non-trivial = non-default environment and >=3 legacy calls around the codec calls; distinct by (environment, placement, type)",
        technique="property-based testing (rapid) over configurations: child processes per environment setting, legacy-call placements drawn per case; two oracles: the configuration-independent reference model, and a differential against a fresh control process (empty FRUGAL_* environment, no legacy call) on size, encoding, decode outcome and the re-encoding of the decoded value; API contracts of the no-op controls",
        level_text="Each configuration process checks sizes, encoded bytes and decoded values of random (type, value, message) triples against the reference model while legacy calls are interleaved at drawn placements; since the model is the same in every process, equal-to-model in all of them means identical across settings, the control process included. In addition one case in three, and every case whose message carries a bool byte other than 0/1 (one message in three may), is re-run in a brand-new control process and the outcomes (size, canonical encoding, decode n/error, decoded value, canonical re-encoding of the decoded value) must be equal: this reaches results the model leaves open. After the legacy calls, half of the cases repeat their codec calls from four goroutines at once (private values and buffers) and each must see the sequential outcome. Pretouch must return nil and never panic, setters return their argument, GetStats must not panic (what it reports is not constrained by the property).",
        level_note="Invalid environment values panic at package init by design and are outside the property.",
    ),
    "C18": dict(
        test="TestC18",
        table_cells=9 * 14 * 9 + 14 * 2 * 9,
        quick=dict(procs=6, checks=1200),
        thorough=dict(procs=16, checks=12000, timeout=1500),
        rule="rapid draws: 75% exhaustive table cells (9 map key kinds x 14 value forms, 14 element forms x list/set, sizes 0,1,2,8,9,27,55,111,130), 25% random types incl. by-value/pointer structs and holder bytes; "
             "non-trivial = the value has a non-empty container; distinct by (type signature, encoded size)",
        technique="property-based testing (rapid): MemStats.Mallocs delta over 64 calls after two warm-up calls (AllocsPerRun discipline) in a single-goroutine GOMAXPROCS=1 worker with GC disabled",
        level_text="For every generated (type, value) EncodedSize(&v) and EncodeObject(buf, nil, &v) with a buffer of size+64 are each called 64 times after two warm-ups; the Mallocs delta divided by 64 must be 0 (a non-zero result is re-measured once).",
        level_note="Escape analysis is toolchain dependent: decided for go1.23.5 only. The one-shot mode (first use with an all-empty value, then one EncodedSize+EncodeObject on the populated value) walks the value once without frugal before counting, because the Go runtime itself allocates once per map value when a pointer-free map is first iterated; a non-zero count is a violation only when two fresh processes confirm it.",
    ),
    "C06": dict(
        test="TestC06",
        quick=dict(procs=8, checks=300, timeout=900),
        thorough=dict(procs=32, checks=1000, timeout=2400, race=True),
        env={"GODEBUG": "clobberfree=1"},
        rule="rapid draws a history of 8-18 steps: decode (random type, anonymous or from the named universe, one string/binary field in three declared nocopy; messages with strings of 0..600 bytes, scalar lists of alignment 1/2/4/8 up to 90 elements so that cumulative sizes cross the 2048-byte block and single objects the 256-byte large-object threshold, pointer-bearing lists/maps), "
             "clobber (overwrite an earlier input buffer with 0xA5), garbage (heap churn), gc (two forced collections under GODEBUG=clobberfree=1), drop; up to 6 decoded objects stay live; "
             "non-trivial = (>=3 extents of >=2 alignments or a pointer-bearing backing array) and a GC after a buffer overwrite; distinct by hash(history, types, messages)",
        technique="property-based testing (rapid), stateful: histories of decodes, buffer overwrites and forced GCs; extent oracle (alignment, pairwise disjointness across all live objects, no overlap with the input) from a reflect+unsafe walk, value-stability oracle after every step",
        level_text="After every step of a generated history every live decoded object must still lift to the value it had when decoded (freed or unscanned memory would be clobbered by the collector), and all extents (pointees, slice arrays to capacity, string bytes, holder bytes) of all live objects must be aligned, pairwise disjoint and outside every input buffer. Thorough tier runs race-instrumented (checkptr).",
        level_note="Map bucket memory is owned by the Go runtime and not walked; The bytes of a field declared nocopy are exempt from the no-overlap-with-input rule and, once its input buffer has been overwritten, from the value comparison (C14 covers them); everything else in the same object, including strings next to or below a nocopy field, is held to the full rule.",
    ),
    "C07": dict(
        test="TestC07",
        quick=dict(procs=8, checks=60, timeout=900),
        thorough=dict(procs=32, checks=350, timeout=3000),
        rule="rapid draws a pool of 6-16 types chosen to share scratch state (a base struct nested by pointer, by value in two map types of the same Go type, in a list; two types with the same required ids incl. id 64; holders; curated mutually recursive and defaulted named types; order shuffled so types are first used on their own or nested) "
             "and a history of 6-24 calls: size/encode (by value or pointer, sufficient or short buffer), decode (well-formed, fresh or pre-filled destination), decodebad (truncated or corrupted inside a container), calls on an invalid definition; "
             "non-trivial = a failed call followed by a successful one; distinct by hash(history, pool)",
        technique="property-based testing (rapid), stateful/model-based: every call compared with the stateless reference model; failing calls and a 10% sample are re-executed first in a brand-new process and (n, error text, destination/output) compared",
        level_text="Along every generated history each result must equal the stateless model's (so nothing of an earlier call can be in it); calls whose outcome the model leaves partly open - failed decodes (n, partial destination), short-buffer encodes - and a sample of the rest are additionally compared with the same call made first in a fresh process.",
        level_note="The partial destination of a failed decode is compared between processes, not prescribed; up to 4 fresh-process comparisons per history.",
    ),
    "C08": dict(
        test="TestC08",
        quick=dict(procs=8, checks=40, timeout=900, race=True),
        thorough=dict(procs=48, checks=120, timeout=3000, race=True),
        rule="one evaluation = one barrier round in a race-instrumented worker: 2-16 registrar goroutines are released together onto the same batch of never-used types (2-6 fresh anonymous types, 1-3 wrappers nesting them by pointer/list/by-value map, 0-5 not-yet-used named types of the generated universe incl. mutually recursive ones), "
             "0-16 steady goroutines meanwhile run size/encode/decode on types registered in earlier rounds; GOMAXPROCS 2/4/16 and harness-side Gosched patterns drawn per round; non-trivial = >=2 goroutines first-used the same fresh type with overlapping call intervals (logical clock) while a steady call was in flight; distinct by (seed, shard, round, registrars)",
        technique="property-based testing (rapid) over sampled schedules under the Go race detector: barrier-released first use of fresh and mutually nested types, per-call comparison with the sequential reference model, race/fatal-error/deadlock detection",
        level_text="Sampled interleavings only (the Go scheduler is not owned by the harness): every call's result must equal the sequential model's, the race detector must stay silent (a report is a violation whatever the timing of the conflicting accesses), no fatal 'concurrent map' error, no hang (120 s watchdog on a ~50 ms round).",
        level_note="Ordering bugs without a data race are caught only if the window is hit; no yield hooks are added to frugal. The overlap labels use a logical clock and never decide pass/fail.",
    ),
}
