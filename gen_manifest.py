#!/usr/bin/env python3
"""Regenerates MANIFEST.json from checks_config.py (single source of truth)."""
import json, os, sys
sys.path.insert(0, os.path.dirname(os.path.abspath(__file__)))
from checks_config import CHECKS
ALL = ["C%02d" % i for i in range(1, 19)]
GOENV = "GOFLAGS=-mod=mod GOPROXY=off GOSUMDB=off GOTOOLCHAIN=local"
m = {
    "version": 1,
    "setup_cmd": "cd /verif/harness && %s go build ./... && %s go vet ./core/ && %s go test -count=1 -run 'TestModelSelf|TestModelDecodeCrossCheck' ./checks/ -rapid.checks=3000 -rapid.seed=1 -rapid.nofailfile=true" % (GOENV, GOENV, GOENV),
    "hooks": {
        "guard": "verif",
        "enable": "no hooks: every check observes the public API only (frugal.EncodedSize/EncodeObject/DecodeObject/Pretouch/options/debug.GetStats) from /verif/harness, which has `replace github.com/cloudwego/frugal => /repo`; nothing in /repo is guarded by the tag",
        "baseline_off_cmd": "for m in . ./fuzz ./tests; do (cd /repo/$m && GOFLAGS=-mod=mod go test -vet=off -count=1 -timeout 25m ./...) || exit 1; done",
        "source_commits": [],
        "add_only": True,
    },
    "engines": [
        {"name": "rapid-harness", "path": "/verif/harness", "serves_properties": sorted(CHECKS),
         "kind_free_text": "pgregory.net/rapid v1.3.0 properties and state machines over JSON-serialisable cases (type spec, value, bytes, history), an independent reference model of Thrift Binary, apache/thrift v0.13.0 as second reader, sharded worker processes with a one-case crash journal; driver ./check"},
    ],
    "checks": [],
    "notes": "Property-based testing / fuzzing only. See DESIGN.md. known_findings.json lists genuine defects (fixed: with the fix commit; open: reported as KNOWN-FINDING).",
    "not_applicable": [],
}
for pid in ALL:
    c = CHECKS.get(pid)
    if not c or c.get("disabled"):
        m["not_applicable"].append({"property_id": pid, "reason": (c or {}).get("disabled") or "check under construction in this session (not yet claimed)"})
        continue
    e = {
        "property_id": pid,
        "quick_cmd": "./check %s quick" % pid,
        "thorough_cmd": "./check %s thorough" % pid,
        "evidence_file": "/verif/evidence/%s.json" % pid,
        "replay_cmd_template": "./check %s --replay {path}" % pid,
        "engine": "rapid-harness",
        "level_claimed": {"category": "exploration", "text": c["level_text"], "design_ref": "DESIGN.md §4 " + pid},
        "level_note": c["level_note"],
        "technique": c["technique"],
    }
    m["checks"].append(e)
json.dump(m, open(os.path.join(os.path.dirname(os.path.abspath(__file__)), "MANIFEST.json"), "w"), indent=1)
print("MANIFEST.json:", len(m["checks"]), "checks,", len(m["not_applicable"]), "not applicable")
